"""C06 — parameterised rules behave like their expansion."""
import itertools
import sys
import re
import random

from .. import core, gramrun

TPRELUDE = """
Pair(x) = [x, x]
Wrap(x, y) = y >> x << y
Twice(x) = [x, "-", x]
Eq(w) = /[ab]/ where `lambda v: v == w`
Rpt(x, k) = x{k}
Val(v) = "a" >> `v`
Nest(x) = ["(", Nest(x)?, ")"] | x
Many(x) = x*
Either(x, y) = x | y
AtLeast(x) = x{2,}
Look(x) = [Expect(x), /[ab1]*/]
class P(x) { l: "("; v: x; r: ")" }
D = /\\d/
N = /\\d/ |> `int`
class K { d: D; w: /[ab]+/ }
ParensB(item) = "(" >> Commas(item | "_") << ")"
ItemsB = Commas(item | "_")
item = /[ab]+/
num = /[0-9]+/ |> `int`
Commas(x) = x // ","
Items = Commas(item | "_")
Parens(item) = "(" >> Commas(item | "_") << ")"
"""
# (call site, the same expression with every call replaced by the template body with the
#  argument substituted for the parameter — None when the expansion is not finite/expressible)
SITES = [
    ('Pair("a")', '["a", "a"]'),
    ('Pair("a" | "b")', '[("a" | "b"), ("a" | "b")]'),
    ('Pair(D)', '[D, D]'),
    ('Pair(K)', '[K, K]'),
    ('Pair(Pair("a"))', '[["a", "a"], ["a", "a"]]'),
    ('Pair(["a", "b"])', '[["a", "b"], ["a", "b"]]'),
    ('Wrap(D, "!")', '"!" >> D << "!"'),
    ('Wrap(y="!", x=D)', '"!" >> D << "!"'),
    ('Wrap(D, y="!")', '"!" >> D << "!"'),
    ('Wrap("!", D)', 'D >> "!" << D'),
    ('Twice("a"+)', '["a"+, "-", "a"+]'),
    ('let n = /[ab]/ in Twice(Eq(n) << ".")', 'let n = /[ab]/ in [(/[ab]/ where `lambda v: v == n`) << ".", "-", (/[ab]/ where `lambda v: v == n`) << "."]'),
    ('let n = /[ab]/ in let m = /[ab]/ in Twice([Eq(n), Eq(m)])',
     'let n = /[ab]/ in let m = /[ab]/ in [[/[ab]/ where `lambda v: v == n`, /[ab]/ where `lambda v: v == m`], "-", [/[ab]/ where `lambda v: v == n`, /[ab]/ where `lambda v: v == m`]]'),
    ('let n = /[ab]/ in Twice(Eq(n))', 'let n = /[ab]/ in [/[ab]/ where `lambda v: v == n`, "-", /[ab]/ where `lambda v: v == n`]'),
    ('let n = /[ab]/ in Pair(Eq(n) | "c")', 'let n = /[ab]/ in [(/[ab]/ where `lambda v: v == n`) | "c", (/[ab]/ where `lambda v: v == n`) | "c"]'),
    ('Rpt(D, 2)', 'D{2}'),
    ('Rpt("a", `2`)', '"a"{2}'),
    ('let k = N in Rpt("a", k)', 'let k = N in "a"{k}'),
    ('let k = N in Rpt(D | "a", k)', 'let k = N in (D | "a"){k}'),
    ('Val(`1`)', '"a" >> `1`'),
    ('let q = D in Val(q)', 'let q = D in "a" >> `q`'),
    ('let xs = "x"* in Val(xs)', 'let xs = "x"* in "a" >> `xs`'),
    ('Nest("a")', None), ('Nest(D)', None), ('P("a")', None), ('[P("a"), P("b")]', None), ('P(P("a"))', None), ('P(D)*', None),
    ('Pair("a") | Pair("b")', '["a", "a"] | ["b", "b"]'),
    ('Opt(Pair("a")) >> Pair("b")', 'Opt(["a", "a"]) >> ["b", "b"]'),
    ('[Pair("a"), Pair("b"), Pair("a")]', '[["a", "a"], ["b", "b"], ["a", "a"]]'),
    ('[Expect(Pair(D)), Pair(D)]', '[Expect([D, D]), [D, D]]'),
    ('(Pair(D) | Pair("a"))*', '([D, D] | ["a", "a"])*'),
    ('let f = "a" in Pair(f)', None),
    ('Twice(Val(`1`))', '["a" >> `1`, "-", "a" >> `1`]'),
    # names of the call site used only inside inline Python / a repetition count of the argument
    ('let k = N in Pair("a"{k})', 'let k = N in ["a"{k}, "a"{k}]'),
    ('let q = D in Pair(["a", `q`])', 'let q = D in [["a", `q`], ["a", `q`]]'),
    ('let n = /[ab]/ in Pair(/[ab]/ where `lambda v: v == n`)', 'let n = /[ab]/ in [/[ab]/ where `lambda v: v == n`, /[ab]/ where `lambda v: v == n`]'),
    # the parameter directly under a repetition / choice / lookahead, with an argument that can fail after consuming
    ('Many("a" >> "b") << "ac"', '("a" >> "b")* << "ac"'),
    ('Many(["a", "b"]) << /[ab]*/', '(["a", "b"])* << /[ab]*/'),
    ('Either("a" >> "b", /[ab]+/)', '("a" >> "b") | /[ab]+/'),
    ('Either(y="a", x=["a", "b"]) << "!"', '(["a", "b"] | "a") << "!"'),
    ('[AtLeast("a" >> "b") | "", /[ab]*/]', '[("a" >> "b"){2,} | "", /[ab]*/]'),
    ('Look("a" >> "b")', '[Expect("a" >> "b"), /[ab1]*/]'),
    ('Many(Pair("a")) << /a*/', '(["a", "a"])* << /a*/'),
    # several instantiations at ONE position that differ only in a keyword argument (each has its own outcome)
    ('Wrap("a", y="!") | Wrap("a", y="1")', '("!" >> "a" << "!") | ("1" >> "a" << "1")'),
    ('Wrap(y="!", x="a") | Wrap(y="!", x="b")', '("!" >> "a" << "!") | ("!" >> "b" << "!")'),
    ('Rpt("a", k=`1`) << "b" | Rpt("a", k=`2`) << "1"', '"a"{1} << "b" | "a"{2} << "1"'),
    ('Expect(Rpt(x="a", k=`1`)) >> Rpt(x="a", k=`2`)', 'Expect("a"{1}) >> "a"{2}'),
    ('[Expect(Val(v=`1`)), Val(v=`2`)]', '[Expect("a" >> `1`), "a" >> `2`]'),
    ('let n = `1` in let m = `2` in (Rpt("a", k=n) << "b" | Rpt("a", k=m))', 'let n = `1` in let m = `2` in ("a"{n} << "b" | "a"{m})'),
    # the SAME argument text at two call sites where a name means different things (a rule here, a parameter there)
    ('[Items, ";" >> Parens(num)]', '[((item | "_") // ","), ";" >> ("(" >> ((num | "_") // ",") << ")")]'),
    ('[ParensB(num), ";" >> ItemsB]', '[("(" >> ((num | "_") // ",") << ")"), ";" >> ((item | "_") // ",")]'),
    ('[Parens(D), Items]', '[("(" >> ((D | "_") // ",") << ")"), ((item | "_") // ",")]'),
    # argument values that are equal for Python (1 == True; two structurally equal parsed objects) but are different
    # values: each instantiation has its own outcome
    ('[Expect(Val(`1`)), Val(`True`)]', '[Expect("a" >> `1`), "a" >> `True`]'),
    ('[Expect(Val(`True`)), Val(`1`), Opt(Val(`0`))]', '[Expect("a" >> `True`), "a" >> `1`, Opt("a" >> `0`)]'),
    ('let xs = Expect("x"*) in let ys = ("x"* |> `tuple`) in [Expect(Val(xs)), Val(ys)]',
     'let xs = Expect("x"*) in let ys = ("x"* |> `tuple`) in [Expect("a" >> `xs`), "a" >> `ys`]'),
    ('let ys = Expect("x"* |> `tuple`) in let xs = "x"* in [Expect(Val(ys)), Val(xs)]',
     'let ys = Expect("x"* |> `tuple`) in let xs = "x"* in [Expect("a" >> `ys`), "a" >> `xs`]'),
    ('let xs = Expect(["x"*]) in let ys = ["x"* |> `tuple`] in [Expect(Val(xs)), Val(ys)]',
     'let xs = Expect(["x"*]) in let ys = ["x"* |> `tuple`] in [Expect("a" >> `xs`), "a" >> `ys`]'),
    ('let ys = Expect(["x"* |> `tuple`]) in let xs = ["x"*] in [Expect(Val(ys)), Val(xs)]',
     'let ys = Expect(["x"* |> `tuple`]) in let xs = ["x"*] in [Expect("a" >> `ys`), "a" >> `xs`]'),
    ('let p = K in let q = K in [Expect(Val(p)), Val(q)]', 'let p = K in let q = K in [Expect("a" >> `p`), "a" >> `q`]'),
    ('let p = K in let q = K in (Val(p) << "1" | Val(q))', 'let p = K in let q = K in (("a" >> `p`) << "1" | ("a" >> `q`))'),
    # ... the same through KEYWORD arguments
    ('[Expect(Val(v=`1`)), Val(v=`True`)]', '[Expect("a" >> `1`), "a" >> `True`]'),
    ('[Expect(Val(v=`True`)), Val(v=`1`), Opt(Val(v=`0`))]', '[Expect("a" >> `True`), "a" >> `1`, Opt("a" >> `0`)]'),
    ('let xs = Expect("x"*) in let ys = ("x"* |> `tuple`) in [Expect(Val(v=xs)), Val(v=ys)]',
     'let xs = Expect("x"*) in let ys = ("x"* |> `tuple`) in [Expect("a" >> `xs`), "a" >> `ys`]'),
    ('let p = K in let q = K in [Expect(Val(v=p)), Val(v=q)]', 'let p = K in let q = K in [Expect("a" >> `p`), "a" >> `q`]'),
    ('let p = K in let q = K in (Val(v=p) << "1" | Val(v=q))', 'let p = K in let q = K in (("a" >> `p`) << "1" | ("a" >> `q`))'),
    # ... and INSIDE a tuple (equal tuples of different values)
    ('let s = ([`1`] |> `tuple`) in let t = ([`True`] |> `tuple`) in [Expect(Val(s)), Val(t)]',
     'let s = ([`1`] |> `tuple`) in let t = ([`True`] |> `tuple`) in [Expect("a" >> `s`), "a" >> `t`]'),
    ('let s = ([`1`, `0`] |> `tuple`) in let t = ([`True`, `False`] |> `tuple`) in [Expect(Val(v=t)), Val(v=s)]',
     'let s = ([`1`, `0`] |> `tuple`) in let t = ([`True`, `False`] |> `tuple`) in [Expect("a" >> `t`), "a" >> `s`]'),
    ('let p = ([K] |> `tuple`) in let q = ([K] |> `tuple`) in [Expect(Val(p)), Val(q)]',
     'let p = ([K] |> `tuple`) in let q = ([K] |> `tuple`) in [Expect("a" >> `p`), "a" >> `q`]'),
    ('Wrap(x=/[ab]/, y=/[!?]/)', '/[!?]/ >> /[ab]/ << /[!?]/'),
    ('let n = /[ab]/ in Wrap(y="!", x=Eq(n))', 'let n = /[ab]/ in "!" >> (/[ab]/ where `lambda v: v == n`) << "!"'),
]
# call sites that must be rejected or are outside the property (wrong arity, unknown keyword)
BAD_SITES = ['Pair()', 'Pair("a", "b")', 'Pair(z="a")']
TEXTS = [''.join(p) for L in range(0, 4) for p in itertools.product('ab1', repeat=L)] + \
    ['aa', 'a-a', 'aa-aa', 'b.-b.', 'bb.-b.', 'bcbc-bc', 'babab-ab', '!1!', '1!', '2aa', '211', '1a', '(a)', '((a))', '(a)(b)',
     '(1)(2)', '()', '(())', 'abac', 'ababac', 'ac', 'az', 'ac!', 'ab!', 'a!', 'abab', 'aba', 'ababa', 'abb', 'aaa', 'aaaa', 'aab', 'ab', 'abab', '1a1a', 'ax', 'xxa', 'aq-aq', 'bb', 'bc', 'a.', 'bb-b', 'a1', '!a!', '?b!', 'a-a1',
     'aabbaa', '11aa11', 'a,_,b;(1,_,2)', '(1,_,2);a,_,b', '(1)a', 'a;(1)', '(1);a', 'a,b;(a,b)', '(_);_', 'xxa', 'xa', 'a', 'xxxa', '1a1aa', '1a1aa1', '1b1ba', '1a1ba', '1ab1aba', '1a1', '!b!', 'aa1', 'aab', 'aa', 'ab', '1111', 'aaaa', 'ab-ab', 'a1-a1', '!b!', 'b!b']


PY_ARGS = [
    # (template definitions, call, expansion): arguments written as inline Python outside the model's vocabulary; the call
    # is compared with its hand-made expansion on the implementation alone
    ('One(a) = `a`', 'One(`1, 2`)', '`(1, 2)`'),
    ('One(a) = `a`', 'One(a=`1, 2`)', '`(1, 2)`'),
    ('Two(a, b) = `[a, b]`', 'Two(`1 if "x" else 2`, b=` lambda v: v `) |> `lambda r: [r[0], r[1](7)]`', '`[1, 7]`'),
    ('Two(a, b) = `[a, b]`', 'Two(b=`[x for x in (1, 2)]`, a=`{"k": (1, 2)}`)', '`[{"k": (1, 2)}, [1, 2]]`'),
    ('Cnt(x, k) = x{k}', 'Cnt("a", `2 if True else 3`) << /a*/', '"a"{2} << /a*/'),
    ('Cnt(x, k) = x{k}', 'let n = `1` in Cnt("a", ` n + 1 `) << /a*/', '"a"{2} << /a*/'),
]
# a call whose argument is itself a call with inline Python arguments: that Python is evaluated where and when the outer
# body uses the parameter - not at all on a path that does not use it, once per use otherwise.  (prelude with Python section,
# template definitions, call, expansion, texts parsed in this order on both modules)
TICKETS = '```\nimport itertools\nticket = itertools.count()\ndef push(acc):\n    return lambda v: (acc.append(v), list(acc))[1]\n```\n'
NESTED_PY = [
    ('', 'N = /\\d/ |> `int`\nMaybe(x) = "!" >> x | "?"\nRep(x, n) = x{n}', 'let n = N in Maybe(Rep("a", `6 // n`))', 'let n = N in ("!" >> "a"{`6 // n`} | "?")',
     ['0?', '3!aa', '6!a', '2?', '0!', '3!a', '']),
    ('', 'N = /\\d/ |> `int`\nMaybe(x) = "!" >> x | "?"\nRep(x, n) = x{n}', 'let n = N in Maybe(x=Rep(n=`6 // n`, x="a"))', 'let n = N in ("!" >> "a"{`6 // n`} | "?")',
     ['0?', '3!aa', '2?', '0!']),
    (TICKETS, 'Both(x) = [x, ",", x]\nStamp(w, t) = w >> `t`', 'Both(Stamp("a", `next(ticket)`))', '[("a" >> `next(ticket)`), ",", ("a" >> `next(ticket)`)]',
     ['a,a', 'a,a', 'a', 'a,a']),
    (TICKETS, 'Both(x) = [x, ",", x]\nCollect(w, acc) = w |> `push(acc)`', 'Both(Collect("a", `[]`))', '[("a" |> `push([])`), ",", ("a" |> `push([])`)]',
     ['a,a', 'a,a', 'a,b']),
    (TICKETS, 'Thrice(x) = [x, x, x]\nStamp(w, t) = w >> `t`\nWrap(y) = "(" >> y << ")"', 'Thrice(Wrap(Stamp("a", `next(ticket)`)))',
     '[("(" >> ("a" >> `next(ticket)`) << ")"), ("(" >> ("a" >> `next(ticket)`) << ")"), ("(" >> ("a" >> `next(ticket)`) << ")")]', ['(a)(a)(a)', '(a)(a)', '(a)(a)(a)']),
]


def python_arguments(R):
    sys.path.insert(0, core.REPO)
    from sourcer import Grammar
    from .c11 import outcome
    for named in (False, True):
        for k, (defs, call, expansion) in enumerate(PY_ARGS):
            head = f'grammar c06py{k}\n' if named else ''
            case = {'call': head + f'start = {call}\n{defs}\n', 'expansion': f'start = {expansion}\n'}
            try:
                gc, ge = Grammar(case['call']), Grammar(case['expansion'])
            except Exception as e:          # noqa
                R.count('python-arguments', (named, k))
                R.counterexample('python-arguments', 'call-site-rejected:' + type(e).__name__, case, 'two grammar modules', str(e)[:160])
                continue
            for text in ('', 'a', 'aa', 'aaa', 'aaaa'):
                R.count('python-arguments', (named, k, text), nontrivial=True)
                a, b = outcome(gc, text), outcome(ge, text)
                if a != b:
                    R.counterexample('python-arguments', 'call-differs-from-expansion', dict(case, text=text), b, a)
                else:
                    R.traces += 1


LITERAL_VALUES = [
    # (definitions, call, expansion, inputs): a literal passed as an argument and used as a VALUE is that value - same
    # type, same content, usable like the value the expansion gives (compared, pickled)
    ('T(w) = w >> `w`', 'T("ab")', '"ab" >> `"ab"`', ['ab', 'a', 'abc']),
    ('T(w) = [w, `w`, `[w]`]', 'T("ab")', '["ab", `"ab"`, `["ab"]`]', ['ab']),
    ('T(w) = w >> `w`', 'T(b"ab")', 'b"ab" >> `b"ab"`', [b'ab', b'a', b'abc']),
    ('Word = b/[a-z]+/\nKw(w) = Word where `lambda x: x == w`', 'Kw(b"ab")', 'Word where `lambda x: x == b"ab"`', [b'ab', b'abc', b'a']),
    ('Word = /[a-z]+/\nKw(w) = Word where `lambda x: x == w`', 'Kw("ab")', 'Word where `lambda x: x == "ab"`', ['ab', 'abc', 'a']),
    ('T(w) = w >> `w`', 'T(0x61)', '0x61 >> `0x61`', [b'a', b'b']),
    ('T(w, v) = w >> `v`', 'T(w="a", v="")', '"a" >> `""`', ['a']),
]


def literal_values(R):
    import pickle
    sys.path.insert(0, core.REPO)
    from sourcer import Grammar
    for named in (False, True):
        for k, (defs, call, expansion, inputs) in enumerate(LITERAL_VALUES):
            head = f'grammar c06lv{k}\n' if named else ''
            case = {'call': head + f'start = {call}\n{defs}\n', 'expansion': f'start = {expansion}\n' + (defs.split('\n')[0] + '\n' if defs.startswith('Word') else '')}
            try:
                gc, ge = Grammar(case['call']), Grammar(case['expansion'])
            except Exception as e:          # noqa
                R.count('literal-values', (named, k))
                R.counterexample('literal-values', 'call-site-rejected:' + type(e).__name__, case, 'two grammar modules', str(e)[:160])
                continue

            def obs(g, t):
                try:
                    v = g.parse(t)
                except g.InputError as e:
                    return ('error', type(e).__name__)
                except Exception as e:      # noqa
                    return ('exception', type(e).__name__)

                def shape(x):
                    if isinstance(x, (list, tuple)):
                        return [type(x).__name__] + [shape(y) for y in x]
                    base = next((b.__name__ for b in (bool, int, str, bytes) if isinstance(x, b)), type(x).__name__)
                    return (base, repr(x))
                try:
                    back = pickle.loads(pickle.dumps(v))
                    pick = 'pickles' if back == v else 'pickles to something else'
                except Exception as e:      # noqa
                    pick = 'cannot be pickled: ' + type(e).__name__
                return ('return', shape(v), pick)
            for t in inputs:
                R.count('literal-values', (named, k, t), nontrivial=True)
                a, b = obs(gc, t), obs(ge, t)
                if a != b:
                    R.counterexample('literal-values', 'literal-argument-is-not-the-value', dict(case, text=repr(t)), b, a)
                    break
            else:
                R.traces += 1


def nested_python_arguments(R):
    sys.path.insert(0, core.REPO)
    from sourcer import Grammar
    from .c11 import outcome
    for named in (False, True):
        for k, (pre, defs, call, expansion, texts) in enumerate(NESTED_PY):
            head = f'grammar c06np{k}\n' if named else ''
            case = {'call': head + pre + f'start = {call}\n{defs}\n', 'expansion': pre + f'start = {expansion}\n' + defs.split('\n')[0] * ('N = ' in defs.split('\n')[0]) + '\n'}
            try:
                gc, ge = Grammar(case['call']), Grammar(case['expansion'])
            except Exception as e:          # noqa
                R.count('nested-python-arguments', (named, k))
                R.counterexample('nested-python-arguments', 'call-site-rejected:' + type(e).__name__, case, 'two grammar modules', str(e)[:160])
                continue
            hist = []
            for text in texts:
                R.count('nested-python-arguments', (named, k, len(hist), text), nontrivial=True)
                a, b = outcome(gc, text), outcome(ge, text)
                hist.append(text)
                if a != b:
                    R.counterexample('nested-python-arguments', 'call-differs-from-expansion', dict(case, texts_in_order=list(hist)), b, a)
                    break
            else:
                R.traces += 1


def inherited_templates(R):
    """a template inherited from a grammar WITHOUT ignore patterns, called from a grammar WITH them: the same literal text
    is passed by parent and child at the same position, and each call behaves like its expansion"""
    sys.path.insert(0, core.REPO)
    from sourcer import Grammar
    from .c11 import outcome
    k = 0
    for tpl, arg, exp in [('T(p) = p', '"a"', '"a"'), ('T(p) = [p, Opt(p)]', '"a"', '["a", Opt("a")]'), ('T(p) = p*', '"ab"', '"ab"*'),
                          ('T(p, q) = p >> q', '"a", "a"', '"a" >> "a"')]:
        for body in ('[Lit << "!" | Mine << "b", /.*/]', '[Expect(Lit), Mine, /.*/]', '[Mine << "!" | Lit, /.*/]'):
            k += 1
            base = f'grammar c06ia{k}\n{tpl}\nLit = T({arg})\nstart = Lit\n'
            child = f'grammar c06ib{k} extends c06ia{k}\nignore Space = / +/\nMine = T({arg})\nstart = {body}\n'
            flat = f'grammar c06ic{k} extends c06ia{k}\nignore Space = / +/\nMine = {exp}\nstart = {body}\n'
            case = {'base': base, 'child_with_calls': child, 'child_with_expansions': flat}
            try:
                Grammar(base)
                gc, ge = Grammar(child), Grammar(flat)
            except Exception as e:          # noqa
                R.count('inherited-templates', k)
                R.counterexample('inherited-templates', 'call-site-rejected:' + type(e).__name__, case, 'grammar modules', str(e)[:160])
                continue
            for text in ('a b', 'a', 'a!', 'a  a', 'ab ab', 'a a b', 'aa', ' a', 'a !', ''):
                R.count('inherited-templates', (k, text), nontrivial=True)
                a, b = outcome(gc, text), outcome(ge, text)
                if a != b:
                    R.counterexample('inherited-templates', 'call-differs-from-expansion', dict(case, text=text), b, a)
                else:
                    R.traces += 1
    # the same with byte literals (bytes input)
    for tpl, arg, exp in [('T(p) = p', '0x61', '0x61'), ('T(p) = [p, Opt(p)]', '0x61', '[0x61, Opt(0x61)]'), ('T(p, q) = p >> q', '0x61, 0x61', '0x61 >> 0x61')]:
        for body in ('[Lit << 0x21 | Mine << 0x62, b/.*/]', '[Expect(Lit), Mine, b/.*/]', '[Mine << 0x21 | Lit, b/.*/]'):
            k += 1
            base = f'grammar c06ia{k}\n{tpl}\nLit = T({arg})\nstart = Lit\n'
            child = f'grammar c06ib{k} extends c06ia{k}\nignore Space = b/ +/\nMine = T({arg})\nstart = {body}\n'
            flat = f'grammar c06ic{k} extends c06ia{k}\nignore Space = b/ +/\nMine = {exp}\nstart = {body}\n'
            case = {'base': base, 'child_with_calls': child, 'child_with_expansions': flat, 'input': 'bytes'}
            try:
                Grammar(base)
                gc, ge = Grammar(child), Grammar(flat)
            except Exception as e:          # noqa
                R.count('inherited-templates', k)
                R.counterexample('inherited-templates', 'call-site-rejected:' + type(e).__name__, case, 'grammar modules', str(e)[:160])
                continue
            for text in (b'a b', b'a', b'a!', b'a  a', b'a a b', b'aa', b' a', b'a !', b''):
                R.count('inherited-templates', (k, text), nontrivial=True)
                a, b = outcome(gc, text), outcome(ge, text)
                if a != b:
                    R.counterexample('inherited-templates', 'call-differs-from-expansion', dict(case, text=repr(text)), b, a)
                else:
                    R.traces += 1


def run(R):
    R.build()
    R.prove('Props/C06.v')
    from ..flagtie import regen_and_tie_flags
    regen_and_tie_flags(R)       # the flag methods of the current source, translated, equal Model.always / Model.partial
    python_arguments(R)
    nested_python_arguments(R)
    literal_values(R)
    inherited_templates(R)
    jobs, gid, pairs = [], 0, {}
    for named in (False, True):
        for site, expansion in SITES:
            head = f'grammar c06g{gid}\n' if named else ''
            jobs.append((gid, head + f'start = {site}\n' + TPRELUDE, TEXTS, {'role': 'call', 'named': named, 'site': site}))
            if expansion is not None:
                head2 = f'grammar c06g{gid + 1}\n' if named else ''
                jobs.append((gid + 1, head2 + f'start = {expansion}\n' + TPRELUDE, TEXTS, {'role': 'expansion'}))
                pairs[gid] = gid + 1
            gid += 2
        # the same call sites with blanks and tabs inside the backticks of every inline Python expression (how a name
        # is found in inline Python must not depend on how the code is padded)
        for site, expansion in SITES:
            if '`' not in site or expansion is None:
                continue
            pad = lambda t: re.sub(r'`([^`]+)`', lambda m: '` ' + m.group(1) + '\t `', t)
            head = f'grammar c06g{gid}\n' if named else ''
            jobs.append((gid, head + f'start = {pad(site)}\n' + pad(TPRELUDE), TEXTS, {'role': 'call', 'named': named, 'site': pad(site)}))
            head2 = f'grammar c06g{gid + 1}\n' if named else ''
            jobs.append((gid + 1, head2 + f'start = {expansion}\n' + TPRELUDE, TEXTS, {'role': 'expansion'}))
            pairs[gid] = gid + 1
            gid += 2
        for site in BAD_SITES:
            head = f'grammar c06g{gid}\n' if named else ''
            jobs.append((gid, head + f'start = {site}\n' + TPRELUDE, TEXTS, {'role': 'bad', 'site': site}))
            gid += 1
    # byte literal as an argument: bytes mode
    for named in (False, True):
        head = f'grammar c06g{gid}\n' if named else ''
        jobs.append((gid, head + 'start = Pair(0x61)\nPair(x) = [x, x]\n', ['', 'a', 'aa', 'ab', 'aaa', 'ba'], {'role': 'call', 'bytes': True, 'site': 'Pair(0x61)'}))
        jobs.append((gid + 1, head.replace(str(gid), str(gid + 1)) + 'start = [0x61, 0x61]\n', ['', 'a', 'aa', 'ab', 'aaa', 'ba'], {'role': 'expansion', 'bytes': True}))
        pairs[gid] = gid + 1
        gid += 2
    recs = gramrun.run_grammars(jobs, chunk=4)
    gramrun.compare(R, recs, 'calls', lambda r, c, g, w: 'call-semantics')
    byid = {r['gid']: r for r in recs}
    sites_ok = 0
    for j in jobs:
        r = byid[j[0]]
        if j[3].get('role') == 'call' and 'grammar_error' in r and r['grammar_error'] != 'unconfirmed-timeout':
            R.counterexample('calls', 'call-site-rejected:' + r['grammar_error'].split(':')[1], {'grammar': r['desc']},
                             'a grammar module', r['grammar_error'])
    for a, b in pairs.items():
        ra, rb = byid[a], byid[b]
        if 'ex' not in ra or 'ex' not in rb:
            continue
        sites_ok += 1
        for ca, cb in zip(ra['cases'], rb['cases']):
            xa, xb = ca[5], cb[5]
            R.count('expansion', (ra['desc'], ca[0]), nontrivial=xa.startswith('(done true'))
            same = xa == xb or (xa.startswith('(done false') and xb.startswith('(done false'))
            if not same:
                site = next(j[3].get('site', '') for j in jobs if j[0] == a)
                mech = ('exception-in-call:' + xa[5:-1] + ' @ ' + site) if xa.startswith('(exc') else 'call-differs-from-expansion'
                R.counterexample('expansion', mech, {'grammar': ra['desc'], 'expansion': rb['desc'].split('\n')[1 if rb['desc'].startswith('grammar') else 0], 'text': ca[0]},
                                 'the outcome of the expanded grammar: ' + xb, xa)
    R.extra['call_sites_with_expansion'] = sites_ok
    R.extra['programs'] = len(jobs)
    R.extra['disagreements_checked'] = sum(s['model_vs_impl_disagreements'] + s['spec_failures'] for s in R.streams.values())
    R.assumptions += ['templates and call sites come from a fixed catalogue (37 sites x {unnamed, named}); expansions are written by hand',
                      'recursive templates and class templates have no finite expansion: they are judged by the model only']
    return R.finish(
        rule='catalogue of templates (sequence, projection, repetition count, value parameter, data-dependent predicate, '
             'recursive template, class template) x call sites (literal, compound, rule, class, nested, keyword, value and '
             'captured-name arguments, several instantiations at one position) x {unnamed, named grammar} x ~140 inputs; '
             'judgements: the model (raw triples) and the hand-expanded grammar',
        checker_cmd='cd /verif/coq && make -f Makefile.coq && coqc -R . SV Props/C06.v')
