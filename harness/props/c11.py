"""C11 — behaviour does not depend on how the grammar module was produced."""
import json
import os
import random
import re
import shutil
import subprocess
import sys
import tempfile

from .. import core, gen_core as G

CANON = r'''
def canon(v):
    if v is None or isinstance(v, (bool, int)):
        return repr(v)
    if isinstance(v, (str, bytes)):
        return repr(v)
    if isinstance(v, list):
        return '[' + ', '.join(canon(x) for x in v) + ']'
    if isinstance(v, tuple):
        return '(' + ', '.join(canon(x) for x in v) + ',)'
    if hasattr(v, '_fields') and hasattr(v, '_metadata'):
        pi = v._metadata.position_info
        span = '' if pi is None else '@%r-%r' % (tuple(pi.start), tuple(pi.end))
        return type(v).__name__ + '(' + ', '.join(canon(getattr(v, f)) for f in v._fields) + ')' + span
    return '<' + type(v).__name__ + '>'

def outcome(mod, text):
    try:
        return 'return ' + canon(mod.parse(text))
    except mod.PartialParseError as e:
        return 'partial %s at %r' % (canon(e.partial_result), tuple(e.last_position))
    except mod.ParseError as e:
        return 'error at %r' % (tuple(e.position),)
    except RecursionError:
        return 'RecursionError'
    except Exception as e:
        return 'exception ' + type(e).__name__
'''

RUNNER = CANON + r'''
import importlib.util, json, sys
src_path, texts_path = sys.argv[1:3]
assert not any('site-packages' in p or p.rstrip('/').endswith('/repo') for p in sys.path), sys.path
spec = importlib.util.spec_from_file_location('standalone_grammar', src_path)
mod = importlib.util.module_from_spec(spec)
spec.loader.exec_module(mod)
forbidden = [m for m in sys.modules if m.split('.')[0] in ('sourcer', 'outsourcer')]
texts = json.load(open(texts_path))
print(json.dumps({'outcomes': [outcome(mod, t) for t in texts], 'imports_of_sourcer': forbidden}))
'''

exec(CANON)         # canon / outcome for the in-process variants


def descriptions(tier, rnd):
    from . import c05, c06, c10
    out = []
    d2 = [e for e in G.depth2() if G.well_formed(e, G.RULES_NULLABLE) and not any(x[0] == 'byte' for x in walk(e))]
    rnd.shuffle(d2)
    for e in d2[:60 if tier == 'quick' else 600]:
        out.append((G.describe(e, 'text'), G.texts('abc', 3)))
    for s, _ in c06.SITES:
        out.append(('start = ' + s + c06.TPRELUDE, c06.TEXTS[:80]))
    for e in c05.FIXED:
        out.append(('start = ' + e + '\n' + c05.PRELUDE, c05.TEXTS[:90]))
    out.append(('start = /\\d/ between {\n prefix: "-"\n right: "^"\n left: "+", "-"\n postfix: "!"\n}\nignore " "\n',
                ['1+1', '1 + 1', '-1^1^1', '1!', '1+', '', '1 - -1!', '1^', '2']))
    out.append(('start = P*\n' + c10.PRELUDE + c10.IGN, ['1a', '1a 1b', ' 1a1', '1a\n1b', '1a:b', '']))
    # inline Python whose behaviour depends on how the module was compiled (assert statements, __debug__, docstrings)
    out.append(('```\ndef chk(x):\n    assert x != "bad", "no"\n    return x\n```\nstart = /[a-z]+/ |> `chk`\n', ['ok', 'bad', 'b', '']))
    out.append(('```\ndef dbg(x):\n    return [x, __debug__]\n```\nstart = /[a-z]+/ |> `dbg`\n', ['ok', '']))
    out.append(('```\ndef doc(x):\n    "the docstring"\n    return [x, doc.__doc__]\n```\nstart = /[a-z]+/ |> `doc`\n', ['ok', '']))
    out.append(('```\nclass Reading:\n    count: int\n    value: float\ndef conv(x):\n    return [Reading.__annotations__["count"](x), conv.__annotations__.get("return", "none") is list]\nconv.__annotations__["return"] = list\n```\nstart = /[0-9]+/ |> `conv`\n', ['7', '12', 'x', '']))
    out.append(('```\ndef tag(x: int = 3) -> "str":\n    return [x, sorted(tag.__annotations__.items()) == [("return", "str"), ("x", int)]]\n```\nstart = /[a-z]+/ |> `tag`\n', ['ab', '']))
    # Python sections are copied verbatim: characters that are invisible in the source (trailing blanks and tabs inside a
    # multi-line string, a form feed, a line continuation, non-ASCII text) are part of the values the module computes
    out.append(('```\nBREAK = """first  \nsecond\t\nthird \t """\n```\nstart = /[a-z]+/ |> `lambda w: [w, BREAK]`\n', ['ok', '']))
    out.append(('```\nTXT = \'\'\'a \\\n  b\x0c\n\n\n  c\u00e9\u2028d\'\'\'\ndef f(w):\n    return [w, TXT,\n\n            len(TXT)]\n```\nstart = /[a-z]+/ |> `f`\n', ['ok', '']))
    out.append(('```\nR = r"""x\\  \n\ty  """   \nS = "tab\there"\n```\nstart = "a" |> `lambda _: [R, S]`\n', ['a', '']))
    # bodies nested past the block budget of one generated function (helper functions), with what makes a helper special:
    # rule references, template calls, literals under ignore, bound names
    for depth in (9, 12, 19, 24):
        opt = '"x"'
        for k in range(depth):
            opt = f'("{chr(97 + k % 20)}" >> Opt({opt}) << "{chr(97 + k % 20)}")'
        seq = '[' * depth + 'W, Pair("q"), `n`' + ']' * depth
        out.append((f'start = {opt}\n', ['', 'aa', 'abba', ''.join(chr(97 + k % 20) for k in reversed(range(depth))) + 'x' + ''.join(chr(97 + k % 20) for k in range(depth)),
                                          ''.join(chr(97 + k % 20) for k in reversed(range(depth))) + ''.join(chr(97 + k % 20) for k in range(depth)), 'ab']))
        out.append((f'start = let n = /[0-9]/ in {seq}\nW = /[a-z]/\nPair(x) = [x, x]\nignore " "\n', ['1aqq', '1 a q q', '1a', '', '1aq', 'aqq']))
    # anonymous ignore patterns with and without a header
    out.append(('start = W*\nW = /[a-z]+/\nignore /[ ]+/\nignore /#[a-z]*/\n', ['ab cd', 'ab #x cd', ' ab', 'ab#', '']))
    out.append(('ignore /[ ]+/\nclass K { w: /[a-z]+/ }\nstart = K+\n', ['ab cd', ' ab', 'ab  ', '']))
    return out


def walk(e):
    yield e
    for x in e[1:]:
        if isinstance(x, tuple) and x and isinstance(x[0], str):
            yield from walk(x)


def run(R):
    R.build()
    R.prove('Props/C11.v')
    R.level = 'translation_validation'
    rnd = random.Random(R.seed)
    sys.path.insert(0, core.REPO)
    from sourcer import Grammar
    descs = descriptions(R.tier, rnd)
    tmp = tempfile.mkdtemp(prefix='sourcer-verif-c11-', dir=os.environ.get('TMPDIR', '/tmp'))
    standalone = []
    try:
        for i, (desc, texts) in enumerate(descs):
            variants = {}
            errs = {}
            for name, head, kw in (('unnamed', '', {}), ('named', f'grammar c11m{i}\n', {}),
                                   ('unnamed+source', '', {'include_source': True}), ('named+source', f'grammar c11s{i}\n', {'include_source': True}),
                                   ('unnamed-again', '', {}), ('after-other-grammars', '', {}), ('named-after-other-grammars', f'grammar c11o{i}\n', {})):
                try:
                    if name == 'after-other-grammars':
                        # grammars whose rules, classes and templates are named like every built-in constructor, like the
                        # rules of this description and like temporaries: compiled between two compilations of the description
                        own = sorted(set(re.findall(r'^(?:class )?([A-Za-z][A-Za-z0-9]*)', desc, re.M)))[:12]
                        for other in ('start = [Opt, Some, Sep?]\nOpt = "q"\nSome = "r"\nSep = "s"\nList(x) = x\nSeq(x, y) = [y, x]\nChoice = "c"\n'
                                      'Left(x, y) = x\nRight(x, y) = y\nSkip(x) = x\nExpect = "e"\nExpectNot = "n"\nclass Longest { v: "l" }\nFail = "f"\nWhere = "w"\n',
                                      'grammar c11pollute\nstart = "z"\n' + ''.join(f'{n}x = "z"\n' for n in own) + ''.join(f'{n} = "y"\n' for n in own if n != 'start')):
                            try:
                                Grammar(other)
                            except Exception:   # noqa
                                pass
                    g = Grammar(head + desc, **kw)
                    variants[name] = (g, [outcome(g, t) for t in texts])
                except Exception as e:          # noqa
                    errs[name] = type(e).__name__
            R.count('variants', desc, nontrivial=True)
            case = {'grammar': desc[:400]}
            if errs and len(errs) != 7:
                R.counterexample('variants', 'variant-fails-to-compile', case, 'all seven variants compile or none', errs)
                continue
            if errs:
                # the catalogue holds valid descriptions only: rejected in every variant is not "equal behaviour", it is a
                # description the current code cannot compile at all
                R.counterexample('variants', 'description-rejected-in-every-variant:' + sorted(set(errs.values()))[0], case, 'a grammar module', errs)
                continue
            base = variants['unnamed'][1]
            for name, (g, outs) in variants.items():
                for t, a, b in zip(texts, base, outs):
                    if a != b:
                        R.counterexample('variants', 'variant-behaves-differently:' + name, dict(case, text=t), a, b)
                        break
                else:
                    R.traces += 1
            for name in ('unnamed+source', 'named+source'):
                g = variants[name][0]
                src = getattr(g, '_source_code', None)
                if not isinstance(src, str):
                    R.counterexample('variants', 'no-source-code', case, 'a _source_code attribute', repr(type(src)))
                    continue
                p = os.path.join(tmp, f'g{i}_{name.replace("+", "_")}.py')
                open(p, 'w').write(src)
                tp = p + '.texts.json'
                json.dump(texts, open(tp, 'w'))
                standalone.append((p, tp, desc, name, base, texts))
            for name in ('unnamed', 'named'):
                if hasattr(variants[name][0], '_source_code'):
                    R.counterexample('variants', 'source-without-include_source', case, 'no _source_code attribute', 'present')
        # entry points other than the module-level parse: rules, classes, and the entry point of a parameterised class
        # (C.parse(args) returns a parser), with and without a header
        ENTRY_DESC = 'start = Pair(`1`, `2`) | W\nW = /[a-z]+/\nclass K { w: W }\nclass Pair(m, n) {\n    first: "x"{m}\n    second: "y"{n}\n}\n'

        def entry_outcomes(g):
            outs = []
            for t in ('xyy', 'xy', 'ab', '', 'xyyq'):
                for label, f in (('parse', lambda: g.parse(t)), ('W', lambda: g.W.parse(t)), ('K', lambda: g.K.parse(t)),
                                 ('Pair(1,2)', lambda: g.Pair.parse(1, 2)(t)), ('Pair(1,2) pos fullparse', lambda: g.Pair.parse(1, 2)(t, 0, False))):
                    try:
                        outs.append((label, t, 'return ' + canon(f())))
                    except g.PartialParseError as e:
                        outs.append((label, t, 'partial at %r' % (tuple(e.last_position),)))
                    except g.ParseError as e:
                        outs.append((label, t, 'error at %r' % (tuple(e.position),)))
                    except Exception as e:      # noqa
                        outs.append((label, t, 'exception ' + type(e).__name__))
            return outs
        R.count('entry-points', 'named-vs-unnamed', nontrivial=True)
        try:
            eo = {name: entry_outcomes(Grammar(head + ENTRY_DESC, **kw)) for name, head, kw in
                  (('unnamed', '', {}), ('named', 'grammar c11entry\n', {}), ('named+source', 'grammar c11entrys\n', {'include_source': True}))}
            for name in ('named', 'named+source'):
                diff = [(a, b) for a, b in zip(eo['unnamed'], eo[name]) if a != b]
                if diff:
                    R.counterexample('entry-points', 'entry-point-behaves-differently:' + name, {'grammar': ENTRY_DESC, 'entry': diff[0][0][0], 'text': diff[0][0][1]},
                                     diff[0][0][2], diff[0][1][2])
        except Exception as e:                  # noqa
            R.counterexample('entry-points', 'entry-point-grammar-rejected', {'grammar': ENTRY_DESC}, 'a grammar module', repr(e)[:200])
        runner = os.path.join(tmp, 'runner.py')
        open(runner, 'w').write(RUNNER)
        procs = []
        for (p, tp, desc, name, base, texts) in standalone:
            procs.append(((p, tp, desc, name, base, texts),
                          subprocess.Popen([sys.executable, '-I', '-S', runner, p, tp], stdout=subprocess.PIPE, stderr=subprocess.PIPE,
                                           text=True, cwd=tmp, env={'PATH': os.environ.get('PATH', '')})))
            if len(procs) >= core.NCPU:
                drain(R, procs)
                procs = []
        drain(R, procs)
    finally:
        shutil.rmtree(tmp, ignore_errors=True)
    R.extra['programs'] = len(descs)
    R.extra['disagreements_checked'] = sum(s['spec_failures'] for s in R.streams.values())
    R.samples.append({'grammar': descs[0][0][:200], 'variants': 5})
    R.assumptions += ['that CPython executes the emitted text the same way in a fresh module is an observation (compile/exec are not modelled)',
                      'the model has no uses_context switch: a `grammar <name>` header only threads one more parameter through every signature and call']
    return R.finish(
        rule='descriptions from the other checks\' generators (core shapes, scoping scenarios, template call sites, operator table, classes with '
             'ignore) x {unnamed, named} x {include_source off, on} x compiled again, plus the emitted _source_code executed on its own in '
             '`python -I -S` without site-packages or the repository on sys.path; outcome = value with spans / error class with position, '
             'for every input of the description\'s input set',
        checker_cmd='python harness: five in-process variants + standalone execution of _source_code in an isolated interpreter')


def drain(R, procs):
    for (p, tp, desc, name, base, texts), pr in procs:
        try:
            out, err = pr.communicate(timeout=300)
        except subprocess.TimeoutExpired:
            pr.kill()
            out, err = '', 'timeout'
        R.count('standalone', (desc, name), nontrivial=True)
        case = {'grammar': desc[:400], 'variant': name}
        try:
            res = json.loads(out)
        except Exception:                       # noqa
            R.counterexample('standalone', 'emitted-source-does-not-run-on-its-own', case, 'outcomes', (err or out)[-400:])
            continue
        if res['imports_of_sourcer']:
            R.counterexample('standalone', 'emitted-source-imports-sourcer', case, 'standard library only', res['imports_of_sourcer'])
        for t, a, b in zip(texts, base, res['outcomes']):
            if a != b:
                R.counterexample('standalone', 'standalone-module-behaves-differently', dict(case, text=t), a, b)
                break
        else:
            R.traces += 1
