"""C20 — user-chosen names cannot collide with generated code."""
import ast
import random
import re
import sys

from .. import core, gramrun

# grammars with user-chosen names marked as @name@ (rules/classes capitalised via @Name@)
TEMPLATES = [
    ('let-and-fields',
     'start = @Rule@+\n@Rule@ = let @v1@ = /[ab]/ in let @v2@ = /\\d/ in [`@v1@`, `@v2@`, "-" , ("x" | "y")*, `@v1@`]\n',
     ['a1-', 'b2-xy', 'a1-xa2-', 'a', '', 'b3-yyy']),
    ('class-fields',
     'class @Cls@ { @f1@: /[ab]/; @f2@: /\\d/*; let @f3@: "-"?; @f4@: [`@f1@`, `@f2@`, ("x" | "y")*] }\nstart = @Cls@+\n',
     ['a1-', 'b22xy', 'a-b1', 'a', '', 'a1b2']),
    ('params',
     '@Tpl@(@p1@, @p2@) = [@p1@, "-", @p2@, "x"*, @p1@]\nstart = @Tpl@("a", /\\d/) | @Tpl@(/\\d/, "b")\n',
     ['a-1a', '1-b1', 'a-1', '', 'a-1xa']),
    ('let-with-loops',
     'start = let @v1@ = /[ab]+/ in [("x" // ","), `@v1@`, ("y"*), Opt("z"), Skip("w"), `@v1@`]\n',
     ['abx,xyyz', 'a', 'bbxw', '', 'ax,xyzwa']),
    ('counts-and-where',
     '@Num@ = /\\d/ |> `int`\nstart = let @v1@ = @Num@ in let @v2@ = /[ab]/ in [/[ab]/{@v1@}, /[ab]/ where `lambda v: v == @v2@`]\n',
     ['2aaba', '1abb', '0aa', '3a', '']),
    ('operator-table',
     '@Rule@ = /\\d/ between {\n prefix: "-"\n left: "+"\n}\nstart = let @v1@ = @Rule@ in [";", @Rule@, `@v1@`]\n',
     ['1+2;3', '-1;2+', '1', '', '1;-2+3']),
    # an operator table next to user-chosen locals (the table's loop calls builtins)
    ('operator-table-with-locals',
     'class @Cls@ { @f1@: "x"; @f2@: /\\d/ between {\n left: "+"\n}; let @f3@: "!"?; @f4@: `@f1@` }\n'
     'start = let @v1@ = "<" in let @v2@ = @Cls@ in [`@v1@`, `@v2@`, /\\d/ between {\n prefix: "-"\n left: "*"\n}]\n',
     ['<x1+2!3*4', '<x1-2', '<x1', '', '<x1+2+3!-1*-2', 'x1']),
    # a parameter that stands for a template and is CALLED with arguments
    ('callable-parameter',
     '@Tpl@(@p1@, @p2@) = [@p1@("a"), "-", @p2@(x="b"), @p1@(@p2@("c"))]\n@Rule@(x) = [x, x]\n@Num@(x) = x*\nstart = @Tpl@(@Rule@, @Num@) | @Tpl@(@Num@, @Rule@)\n',
     ['aa-bbbcc', 'aaa-bbccc', 'aa-cc', '', 'a-bbcccc', '-bb']),
]
TEMPLATES.append(
    # repetitions with literal bounds next to user-chosen locals, parameters and rule names (counting loops of the generated code)
    ('bounded-repetitions',
     'class @Cls@ { @f1@: /[0-9]/{2}; @f2@: /[a-z]/{1,3}; @f3@: "x"{,2}; @f4@: `@f1@` }\n'
     'start = let @v1@ = /[0-9]/{1,2} in [@Cls@, `@v1@`, @Tpl@("q")]\n@Tpl@(@p1@) = @p1@{,2} >> /[a-z]/{1,3}\n',
     ['112abxxqa', '112ab', '91a', '1', '', '1212abcxqqabc', '112abq']))
PLAIN = {'v1': 'alpha', 'v2': 'beta', 'f1': 'first', 'f2': 'second', 'f3': 'third', 'f4': 'fourth', 'p1': 'px', 'p2': 'py',
         'Rule': 'Item', 'Cls': 'Node', 'Tpl': 'Tmpl', 'Num': 'Numb'}
LOCAL_KEYS = ['v1', 'v2', 'f1', 'f2', 'f3', 'f4', 'p1', 'p2']
GLOBAL_KEYS = ['Rule', 'Cls', 'Tpl', 'Num']
TEMP_BASES = ['value', 'end', 'item', 'staging', 'checkpoint', 'backtrack', 'farthest_pos', 'farthest_err', 'farthest_result',
              'farthest_position', 'has_result', 'farthest_error_result', 'farthest_error_position', 'match', 'matcher', 'arg', 'func',
              'start_pos', 'saw_separator', 'saved']
import builtins as _builtins
BUILTINS = ['list', 'len', 'id', 'object', 'dict', 'tuple', 'isinstance', 'hash', 'reversed', 'enumerate', 'getattr', 'hasattr', 'repr',
            'max', 'set', 'bytes', 'str', 'int', 'slice', 'bool', 'super', 'staticmethod', 'TypeError']
# ... and every other lower-case builtin of this Python (whatever the generated code may come to call by bare name)
BUILTINS += sorted(n for n in dir(_builtins) if n.isidentifier() and n.islower() and not n.startswith('_') and n not in BUILTINS
                   and n not in ('copyright', 'credits', 'license', 'exit', 'quit', 'help', 'input', 'breakpoint', 'print', 'open', 'exec', 'eval', 'compile'))
CONSTRUCTORS = ['Seq', 'List', 'Left', 'Right', 'Opt', 'Choice', 'Sep', 'Some', 'Skip', 'Str']
# identifiers that BEGIN with a word of the grammar language
KEYWORDISH = ['letter', 'let_it', 'Nonempty', 'Truest', 'Falsehood', 'whereabouts', 'classy', 'ignored_x', 'passing', 'requirement', 'inside',
              'between2', 'leftmost', 'rightmost', 'infixed', 'prefixes', 'grammarian', 'extendsx', 'overrides1', 'startle', 'Startup']
SCRATCH = ['title', 'line', 'col', 'excerpt', 'details', 'text', 'pos', 'fullparse', 'memo', 'stack', 'key', 'gtor', 'result', 'node', 'visited',
           'self', 'cls', 'args', 'kw', 'other', 'name', 'fields', 'start', 'callback', 'origin']


def instantiate(tpl, names):
    return re.sub(r'@(\w+)@', lambda m: names[m.group(1)], tpl)


def renamings(rnd, keys_used, tier):
    out = []
    # fresh random identifiers
    for _ in range(3):
        out.append(('fresh', {k: ('Z' if k in GLOBAL_KEYS else 'z') + ''.join(rnd.choice('abcdefgh') for _ in range(5)) + str(i)
                              for i, k in enumerate(keys_used)}))
    locs = [k for k in keys_used if k in LOCAL_KEYS]
    globs = [k for k in keys_used if k in GLOBAL_KEYS]
    # one local at a time named like a temporary / scratch name / builtin
    for k in locs:
        for base in TEMP_BASES:
            for n in ((1, 2, 3) if tier == 'thorough' else (1, 2)):
                out.append((f'temporary-lookalike:{base}{n}', {**PLAIN, k: f'{base}{n}'}))
        for b in SCRATCH:
            out.append((f'runtime-scratch:{b}', {**PLAIN, k: b}))
        for b in BUILTINS:
            out.append((f'builtin-as-local:{b}', {**PLAIN, k: b}))
        for b in CONSTRUCTORS:
            out.append((f'constructor-as-local:{b}', {**PLAIN, k: b}))
    for k in locs + globs:
        for b in KEYWORDISH:
            out.append((f'keyword-prefixed:{b}', {**PLAIN, k: b}))
    for k in globs:
        for b in BUILTINS:
            out.append((f'builtin-as-rule:{b}', {**PLAIN, k: b}))
        for b in CONSTRUCTORS:
            out.append((f'constructor-name:{b}', {**PLAIN, k: b}))
        for b in SCRATCH[:6]:
            out.append((f'runtime-scratch-as-rule:{b}', {**PLAIN, k: b}))
    return out


def stored_names(src):
    """names assigned in the generated module, per function (module level = '')"""
    tree = ast.parse(src)
    out = {}

    def visit(node, fn):
        for ch in ast.iter_child_nodes(node):
            if isinstance(ch, (ast.FunctionDef, ast.ClassDef)):
                out.setdefault(fn, set()).add(ch.name)
                visit(ch, ch.name if isinstance(ch, ast.FunctionDef) else fn)
            else:
                if isinstance(ch, ast.Name) and isinstance(ch.ctx, ast.Store):
                    out.setdefault(fn, set()).add(ch.id)
                visit(ch, fn)
    visit(tree, '')
    return out


def top_names(src):
    """names bound at module level by the generated module"""
    out = set()
    for n in ast.parse(src).body:
        if isinstance(n, (ast.FunctionDef, ast.ClassDef)):
            out.add(n.name)
        elif isinstance(n, (ast.Assign, ast.AugAssign, ast.AnnAssign)):
            for x in ast.walk(n):
                if isinstance(x, ast.Name) and isinstance(x.ctx, ast.Store):
                    out.add(x.id)
        elif isinstance(n, (ast.Import, ast.ImportFrom)):
            for a in n.names:
                out.add((a.asname or a.name).split('.')[0])
        elif isinstance(n, (ast.If, ast.Try, ast.With, ast.For, ast.While)):
            for x in ast.walk(n):
                if isinstance(x, (ast.FunctionDef, ast.ClassDef)):
                    out.add(x.name)
                elif isinstance(x, ast.Name) and isinstance(x.ctx, ast.Store):
                    out.add(x.id)
    return out


def run(R):
    R.build()
    R.prove('Props/C20.v')
    rnd = random.Random(R.seed)
    jobs, meta, gid = [], {}, 0
    for tname, tpl, texts in TEMPLATES:
        keys = sorted(set(re.findall(r'@(\w+)@', tpl)))
        base_desc = instantiate(tpl, PLAIN)
        jobs.append((gid, base_desc, texts, {}))
        base_id = gid
        gid += 1
        rens = renamings(rnd, keys, R.tier)
        if R.tier == 'quick':
            fresh = [r for r in rens if r[0] == 'fresh']
            rest = [r for r in rens if r[0] != 'fresh']
            rnd.shuffle(rest)
            keep = [r for r in rest if r[0].split(':')[0] in ('builtin-as-local', 'builtin-as-rule', 'constructor-name', 'constructor-as-local', 'keyword-prefixed')]
            keep += [r for r in rest if r not in keep and r[0] in ('runtime-scratch:self', 'runtime-scratch:cls', 'runtime-scratch:args', 'runtime-scratch:start')]
            other = [r for r in rest if r not in keep]
            rens = fresh + keep + other[:100]
        for label, names in rens:
            full = {**PLAIN, **names}
            if len(set(full[k] for k in keys)) != len(keys):
                continue
            jobs.append((gid, instantiate(tpl, full), texts, {}))
            meta[gid] = (tname, label, base_id, {k: full[k] for k in keys})
            gid += 1
    # a rule named like a helper function the generator defines at module level (<prefix><user name> vs <helper><id>)
    sys.path.insert(0, core.REPO)
    from sourcer import Grammar
    HELPER_TPL = ('helper-functions', 'start = @Tpl@(["a", "b"]) << @Rule@?\n@Tpl@(@p1@) = [@p1@, @p1@]\n@Rule@ = "c"\n', ['abab', 'ababc', 'ab', '', 'c'])
    tname, tpl, texts = HELPER_TPL
    keys = sorted(set(re.findall(r'@(\w+)@', tpl)))
    jobs.append((gid, instantiate(tpl, PLAIN), texts, {}))
    base_id = gid
    gid += 1
    try:
        plain_src = Grammar(instantiate(tpl, PLAIN), include_source=True)._source_code
    except Exception:                       # noqa
        plain_src = ''
    helper_ids = sorted(set(re.findall(r'^def _\w*?function_(\d+)\(', plain_src, re.M)), key=int)
    for hid in helper_ids + [str(k) for k in range(0, 12)]:
        for stem in ('function_', 'parse_function_', 'error', 'raise_error', 'matcher'):
            full = {**PLAIN, 'Rule': stem + hid}
            jobs.append((gid, instantiate(tpl, full), texts, {}))
            meta[gid] = (tname, f'helper-lookalike:{stem}{hid}', base_id, {k: full[k] for k in keys})
            gid += 1
    recs = gramrun.run_grammars(jobs, chunk=10)
    def mech(r, c, got, want):
        m = meta.get(r['gid'])
        if m is None:
            return 'semantics'
        return f"{m[1].split(':')[0]}:outcome-changes @ {m[1].split(':')[-1]}"
    gramrun.compare(R, recs, 'renamed-grammars', mech, check_parse=True, explain_rec=lambda r: mech(r, None, None, None))
    byid = {r['gid']: r for r in recs}
    for g_id, (tname, label, base_id, names) in meta.items():
        r, b = byid[g_id], byid[base_id]
        kind = label.split(':')[0]
        R.count('renaming', (tname, label), nontrivial=True)
        case = {'template': tname, 'renaming': names, 'grammar': r['desc']}
        if r.get('grammar_error') == 'unconfirmed-timeout' or b.get('grammar_error') == 'unconfirmed-timeout':
            continue
        if 'grammar_error' in r:
            R.counterexample('renaming', f'{kind}:grammar-rejected:' + (r['grammar_error'].split(':') + ['?', '?'])[1] + ' @ ' + label.split(':')[-1],
                             case, 'a grammar module like for the plain names', r['grammar_error'][:200])
            continue
        for cb, cr in zip(b['cases'], r['cases']):
            if cb[5] != cr[5] or cb[6] != cr[6]:
                R.counterexample('renaming', f'{kind}:outcome-changes @ ' + label.split(':')[-1], dict(case, text=cb[0]),
                                 {'raw': cb[5], 'parse': cb[6]}, {'raw': cr[5], 'parse': cr[6]})
                break
        else:
            R.traces += 1
    # static scan of the emitted source: every name the generator stores is a user name or starts with an underscore
    API = {'parse', 'visit', 'traverse', 'transform', 'Infix', 'Prefix', 'Postfix', 'ParsedObject', 'ParsingRule', 'InputError',
           'ParseError', 'PartialParseError'}
    for tname, tpl, texts in TEMPLATES:
        desc = instantiate(tpl, PLAIN)
        g = Grammar(desc, include_source=True)
        users = set(PLAIN.values())
        st = stored_names(g._source_code)
        R.count('static-scan', tname, nontrivial=True)
        for fn, names in st.items():
            if not (fn.startswith('_try_') or fn.startswith('_function_') or fn.startswith('_parse_function_')):
                continue
            bad = sorted(n for n in names if not n.startswith('_') and n not in users)
            if bad:
                R.counterexample('static-scan', 'temporary-in-the-user-namespace', {'template': tname, 'function': fn},
                                 'every name stored by generated rule code is a user name or starts with an underscore', bad)
                break
    # parameters of a class used through the class's own entry point, C.parse(args)(text, pos, fullparse): renamed into
    # the names of that entry point's own parameters and into scratch names of the runtime
    def class_entry(pnames):
        a, b = pnames
        g = Grammar(f'class Pair({a}, {b}) {{\n    first: "x"{{{a}}}\n    second: "y"{{{b}}}\n}}\nstart = "z"\n')
        outs = []
        for args in ((1, 2), (2, 1), (0, 1)):
            for text, pos, full in (('xyy', 0, True), ('xxy', 0, True), ('qxyy', 1, True), ('xyyq', 0, False), ('y', 0, True), ('', 0, True)):
                try:
                    v = g.Pair.parse(*args)(text, pos, full)
                    outs.append(('return', repr(v).replace(a, 'A1').replace(b, 'A2')))
                except g.PartialParseError as e:
                    outs.append(('partial', e.last_position.index))
                except g.ParseError as e:
                    outs.append(('error', e.position.index))
                except Exception as e:          # noqa
                    outs.append(('exception', type(e).__name__))
        return outs
    try:
        ref_entry = class_entry(('alpha', 'beta'))
    except Exception as e:                      # noqa
        ref_entry = ('construction failed', type(e).__name__)
    for nm in ['text', 'pos', 'fullparse', 'start', 'memo', 'stack', 'key', 'result', 'gtor', 'cls', 'args', 'kwargs', 'closure', 'func', 'value1', 'item1']:
        for pn in ((nm, 'beta'), ('alpha', nm)):
            R.count('class-entry-point', pn, nontrivial=True)
            try:
                got = class_entry(pn)
            except Exception as e:              # noqa
                got = ('construction failed', type(e).__name__)
            if got != ref_entry:
                R.counterexample('class-entry-point', f'class-parameter:outcome-changes @ {nm}', {'parameters': list(pn)},
                                 'the outcomes of the same class with parameters alpha, beta', [x for x, y in zip(got, ref_entry) if x != y][:3] if isinstance(got, list) else got)
    # the objects a renamed grammar returns are used through the documented API (transform rebuilding parents, _replace,
    # _asdict, ==, hash, repr, deepcopy): the outcomes are those of the plain names, field for field
    import copy as _copy
    OBJ_TPL = 'class @Cls@ { @f1@: Leaf; @f2@: /\\d/*; @f3@: Leaf? }\nclass Leaf { v: /[ab]/ }\nstart = @Cls@+\n'

    def dump(x, order):
        if isinstance(x, (list, tuple)):
            return [type(x).__name__] + [dump(y, order) for y in x]
        if hasattr(x, '_fields'):
            pi = getattr(getattr(x, '_metadata', None), 'position_info', None)
            return ['obj', order.get(type(x).__name__, type(x).__name__), [dump(getattr(x, f), order) for f in x._fields],
                    None if pi is None else (tuple(pi.start), tuple(pi.end))]
        return x

    def api_outcomes(names):
        desc = instantiate(OBJ_TPL, names)
        g = Grammar(desc)
        order = {names['Cls']: 0, 'Leaf': 1}
        cls = getattr(g, names['Cls'])
        outs = []
        for text in ('a1b', 'a12ab2', 'b'):
            tree = g.parse(text)
            steps = [
                ('transform-rebuild', lambda: g.transform(tree, lambda n: g.Leaf('x') if isinstance(n, g.Leaf) else n)),
                ('transform-identity', lambda: g.transform(tree, lambda n: n)),
                ('replace-first', lambda: tree[0]._replace(**{names['f1']: g.Leaf('y')})),
                ('replace-second', lambda: tree[0]._replace(**{names['f2']: ['9']})),
                ('replace-none', lambda: tree[0]._replace()),
                ('asdict-values', lambda: list(tree[0]._asdict().values())),
                ('eq', lambda: tree[0] == cls(g.Leaf(text[0]), list(tree[0]._asdict().values())[1], tree[0]._asdict()[names['f3']])),
                ('hash-eq', lambda: hash(tree[0]) == hash(_copy.deepcopy(tree[0]))),
                ('deepcopy', lambda: _copy.deepcopy(tree)),
                ('repr', lambda: repr(tree).replace(names['Cls'], 'C').replace(names['f1'] + '=', 'F1=').replace(names['f2'] + '=', 'F2=').replace(names['f3'] + '=', 'F3=')),
                ('visit', lambda: [dump(n, order) for n in g.visit(tree)][:6]),
            ]
            for label, f in steps:
                try:
                    outs.append((text, label, repr(dump(f(), order))))
                except Exception as e:          # noqa
                    outs.append((text, label, 'exception ' + type(e).__name__ + ': ' + str(e)[:60]))
        return outs
    ref_api = api_outcomes(PLAIN)
    for k in ('f1', 'f2', 'f3'):
        for b in SCRATCH + BUILTINS[:8] + ['value1', 'item1', 'field', 'left', 'right', 'state', 'values', 'items', 'keys', 'update', 'get', 'position_info']:
            names = {**PLAIN, k: b}
            if len(set(names[x] for x in ('f1', 'f2', 'f3'))) != 3:
                continue
            R.count('object-api', (k, b), nontrivial=True)
            try:
                got = api_outcomes(names)
            except Exception as e:              # noqa
                got = [('', 'construction-or-parse', 'exception ' + type(e).__name__ + ': ' + str(e)[:80])]
            if got != ref_api:
                d = next(((x, y) for x, y in zip(got, ref_api) if x != y), (got[:1], ref_api[:1]))
                R.counterexample('object-api', f'field-name:api-outcome-changes @ {b}', {'grammar': instantiate(OBJ_TPL, names), 'field': k, 'renamed_to': b},
                                 d[1], d[0])
            else:
                R.traces += 1
    # named grammars that extend one another: a rule of the parent that the child overrides or merely uses, renamed into
    # identifiers that begin with words of the inheritance plumbing (super..., ctx..., override..., extends...)
    INH_BASE = 'grammar @G@\nstart = @Tpl@(@Rule@)\n@Tpl@(x) = [x, x]\n@Rule@ = /[a-z]/\nPair = [@Rule@, "-", @Num@]\n@Num@ = /[0-9]/\n'
    INH_CHILD = 'grammar @H@ extends @G@\noverride @Rule@ = /[A-Z]/ | super.@Rule@\nTwo = [@Num@, @Num@]\nThree = @Tpl@(@Num@)\n'

    def inh_outcomes(names, tag):
        nm = dict(names, G='c20inh_a' + tag, H='c20inh_b' + tag)
        Grammar(instantiate(INH_BASE, nm))
        h = Grammar(instantiate(INH_CHILD, nm))
        outs = []
        for en in (None, 'Pair', 'Two', 'Three', nm['Rule'], nm['Num']):
            for t in ('aa', 'AA', 'aA', 'a-1', 'A-1', '12', '1', 'a', ''):
                f = h.parse if en is None else getattr(h, en).parse
                try:
                    outs.append(('return', repr(f(t))))
                except h.PartialParseError as e:
                    outs.append(('partial', repr(e.partial_result), e.last_position.index))
                except h.ParseError as e:
                    outs.append(('error', e.position.index))
                except Exception as e:          # noqa
                    outs.append(('exception', type(e).__name__))
        return outs
    try:
        ref_inh = inh_outcomes(PLAIN, '0')
    except Exception as e:                      # noqa
        ref_inh = [('construction failed', type(e).__name__)]
    k = 0
    for key in ('Rule', 'Num', 'Tpl'):
        for b in ['supervisor', 'superitem', 'super_x', 'superb', 'ctxitem', 'ctx', 'overrides1', 'extendsx', 'grammarian', 'startle', 'parser', 'parsed', 'tryit', 'try_x',
                  'context', 'Super', 'SuperItem'] + KEYWORDISH[:6]:
            k += 1
            names = {**PLAIN, key: b}
            R.count('inheritance-renaming', (key, b), nontrivial=True)
            try:
                got = inh_outcomes(names, str(k))
            except Exception as e:              # noqa
                got = [('construction failed', type(e).__name__ + ': ' + str(e)[:80])]
            if got != ref_inh:
                d = next(((x, y) for x, y in zip(got, ref_inh) if x != y), (got[:1], ref_inh[:1]))
                R.counterexample('inheritance-renaming', f'inherited-rule-name:outcome-changes @ {b}',
                                 {'base': instantiate(INH_BASE, dict(names, G='A', H='B')), 'child': instantiate(INH_CHILD, dict(names, G='A', H='B')), 'renamed': {key: b}}, d[1], d[0])
            else:
                R.traces += 1
    # module level: a name the generator defines on its own account must not have the shape of a name DERIVED from a
    # user name (X, _parse_X, _try_X with X a user identifier), whatever the user names are
    ident = re.compile(r'[A-Za-z][A-Za-z0-9_]*$')
    for tname, tpl, texts in TEMPLATES + [HELPER_TPL]:
        desc = instantiate(tpl, PLAIN)
        g = Grammar('grammar c20scan\n' + desc, include_source=True)
        users = set(PLAIN.values()) | {'start'}
        top = top_names(g._source_code)
        R.count('static-scan-module', tname, nontrivial=True)
        for n in sorted(top):
            derived_from = None
            for pre in ('_parse_', '_try_', ''):
                if n.startswith(pre) and ident.match(n[len(pre):]):
                    derived_from = n[len(pre):]
                    break
            if derived_from is None or derived_from in users or (n in API):
                continue
            R.counterexample('static-scan-module', 'generated-name-in-the-space-of-derived-user-names @ ' + re.sub(r'\d+', 'N', n),
                             {'template': tname, 'generated_name': n, 'colliding_user_name': derived_from},
                             'module-level names of the generator are not of the form X / _parse_X / _try_X for an identifier X', n)
    R.assumptions += ['identifiers are ASCII, do not start with an underscore and are not Python keywords',
                      'objects are compared by structure (class identity by order of definition, fields by position), so renamed class and field names compare equal']
    return R.finish(
        rule='six grammar templates (lets, class fields incl. let fields, template parameters, loops that allocate temporaries, counts and '
             'predicates, an operator table) x renamings of one identifier at a time into temporaries-lookalikes (<base><n> for every '
             'temporary base name), runtime scratch names, builtins, constructor names, plus fresh random identifiers for all; the '
             'renamed grammar must give the outcomes of the plain one on every input; static scan of the emitted source; results of grammars with renamed class fields used through transform, _replace, _asdict, ==, hash, repr, deepcopy, visit',
        checker_cmd='cd /verif/coq && make -f Makefile.coq && coqc -R . SV Props/C20.v')
