"""C18 — parse calls are isolated from each other."""
import random
import sys
import threading

from .. import core
from .c11 import canon, outcome      # canonical outcome strings

GRAMMARS = {
    'arith': 'start = E\nE = /\\d+/ between {\n prefix: "-"\n left: "*"\n left: "+", "-"\n}\nignore " "\n',
    'classes': 'class K { d: /\\d/; w: /[ab]+/ }\nclass P { k: K; rest: ["," >> K]* }\nstart = P\n',
    'scoping': 'N = /\\d/ |> `int`\nstart = (let n = N in [/[ab]/{n}, `n`])*\n',
    'raising': '```\nclass Boom(Exception): pass\ndef boom(x):\n    if x == "x":\n        raise Boom()\n    return x\n```\nstart = [T, T*]\nT = /[a-z]/ |> `boom`\n',
    'templates': 'Pair(x) = [x, x]\nstart = Pair("a") | Pair(/\\d/)\n',
}
TEXTS = {
    'arith': ['1+2*3', '1 + ', '-4--5', '2*', '', '7', '1+2+3+4+5*6*7', ' 8 '],
    'classes': ['1ab', '1ab,2b', '1ab,', 'x', '', '1a,2b,3a', '1'],
    'scoping': ['2ab1a', '1a2', '0', '3ab', '', '2aa2bb2ab'],
    'raising': ['ab', 'ax', 'x', 'abc', '', 'axb'],
    'templates': ['aa', '12', 'a1', '', 'aaa'],
}


def call_of(rnd, names):
    n = rnd.choice(names)
    return (n, rnd.choice(TEXTS[n]), rnd.choice([0, 0, 0, 1]), rnd.choice([True, True, False]))


def do_call(mods, c):
    n, text, pos, full = c
    g = mods[n]
    try:
        return 'return ' + canon(g.parse(text, pos, full))
    except g.PartialParseError as e:
        return 'partial %s at %r' % (canon(e.partial_result), tuple(e.last_position))
    except g.ParseError as e:
        return 'error at %r' % (tuple(e.position),)
    except Exception as e:                      # noqa
        return 'exception ' + type(e).__name__


def run(R):
    R.build()
    R.prove('Props/C18.v')
    rnd = random.Random(R.seed)
    sys.path.insert(0, core.REPO)
    from sourcer import Grammar
    quick = R.tier == 'quick'

    def fresh_modules():
        return {n: Grammar(d) for n, d in GRAMMARS.items()}
    # reference: every call on a freshly built module
    ref = {}

    def reference(c):
        if c not in ref:
            ref[c] = do_call({c[0]: Grammar(GRAMMARS[c[0]])}, c)
        return ref[c]
    # ---- histories ----
    names = list(GRAMMARS)
    for h in range(60 if quick else 1500):
        mods = fresh_modules()
        hist = [call_of(rnd, rnd.sample(names, rnd.randrange(1, 4))) for _ in range(rnd.randrange(2, 31))]
        for i, c in enumerate(hist):
            got = do_call(mods, c)
            R.count('history', (tuple(hist[:i]), c), nontrivial=i > 0)
            if got != reference(c):
                R.counterexample('history', 'outcome-depends-on-earlier-calls', {'history': hist[:i], 'call': c}, reference(c), got)
                break
        else:
            R.traces += 1
    R.samples.append({'history': [list(c) for c in hist[:4]], 'last_outcome': got})
    # ---- threads ----
    mods = fresh_modules()
    old = sys.getswitchinterval()
    sys.setswitchinterval(1e-6)
    try:
        for rounds in range(6 if quick else 60):
            nthreads = rnd.choice([2, 4, 8])
            plans = [[call_of(rnd, names) for _ in range(150)] for _ in range(nthreads)]
            results = [None] * nthreads
            barrier = threading.Barrier(nthreads)

            def work(k):
                barrier.wait()
                results[k] = [do_call(mods, c) for c in plans[k]]
            ths = [threading.Thread(target=work, args=(k,)) for k in range(nthreads)]
            for t in ths:
                t.start()
            for t in ths:
                t.join()
            for k in range(nthreads):
                for c, got in zip(plans[k], results[k]):
                    R.count('threads', (rounds, k, c), nontrivial=True)
                    if got != reference(c):
                        R.counterexample('threads', 'outcome-depends-on-concurrent-calls', {'threads': nthreads, 'call': c}, reference(c), got)
                        break
                else:
                    R.traces += 1
    finally:
        sys.setswitchinterval(old)
    # ---- re-entrant parses from every kind of callback ----
    reent = {
        'apply': 'class W { v: /[a-z]+/ }\nInner = W\nstart = [W, "(" >> /[a-z]+/ |> `lambda s: Inner.parse(s)`, ")"]\n',
        'where': 'Inner = /[a-z]+/\nstart = /[a-z()]+/ where `lambda s: Inner.parse(s.strip("()")) == s.strip("()")`\n',
        'class-field': 'class W { v: /[a-z]+/ }\nInner = W\nclass Q { a: /[a-z]+/; b: `Inner.parse(a)` }\nstart = Q\n',
        'requires': 'Inner = /[a-z]+/\nclass Q { a: /[a-z]+/; requires `Inner.parse(a) == a` }\nstart = [Q, Q?]\n',
        'nested-module': 'class W { v: /[a-z]+/ }\nstart = [W, "(" >> /[a-z]+/ |> `lambda s: parse(s)[0]`, ")"] | [W]\n',
    }
    expect = {
        'apply': ('ab(cd)', "return [W('ab')@(0, 1, 1)-(1, 1, 2), W('cd')@(0, 1, 1)-(1, 1, 2), ')']"),
        'where': ('(ab)', "return '(ab)'"),
        'class-field': ('ab', "return Q('ab', W('ab')@(0, 1, 1)-(1, 1, 2))@(0, 1, 1)-(1, 1, 2)"),
        'requires': ('ab', "return [Q('ab')@(0, 1, 1)-(1, 1, 2), None]"),
        'nested-module': ('ab(cd)', "return [W('ab')@(0, 1, 1)-(1, 1, 2), W('cd')@(0, 1, 1)-(1, 1, 2), ')']"),
    }
    for name, desc in reent.items():
        g = Grammar(desc)
        text, want = expect[name]
        for rep in range(3):
            got = outcome(g, text)
            R.count('re-entrant', (name, rep), nontrivial=True)
            if got != want:
                R.counterexample('re-entrant', 'nested-parse-from-' + name, {'grammar': desc, 'text': text}, want, got)
                break
    # ---- compiling further grammars (extending / re-using the name) does not alter an existing module ----
    base = Grammar('grammar c18base\nstart = W+\nW = /[a-z]/\n')
    before = [outcome(base, t) for t in ('ab', 'a1', '')]
    Grammar('grammar c18child extends c18base\noverride W = /[0-9]/\n')
    mid = [outcome(base, t) for t in ('ab', 'a1', '')]
    other = Grammar('grammar c18base\nstart = "zzz"\n')
    after = [outcome(base, t) for t in ('ab', 'a1', '')]
    R.count('other-grammars', 'extend', nontrivial=True)
    R.count('other-grammars', 'reuse-name', nontrivial=True)
    if mid != before:
        R.counterexample('other-grammars', 'extending-grammar-alters-parent', {'step': 'Grammar(child extends base)'}, before, mid)
    if after != before:
        R.counterexample('other-grammars', 'name-reuse-alters-existing-module', {'step': 'Grammar with the same name'}, before, after)
    R.assumptions += ['CPython thread scheduling and any shared state the model does not know about are only observed, not proved absent',
                      'inline Python of the raising grammar raises a dedicated exception for the input "x"']
    return R.finish(
        rule='histories of 2-30 calls on 1-3 of five modules (different texts, offsets, fullparse values, some abandoned because inline '
             'Python raises), every outcome compared with the same call on a freshly built module; 2-8 threads x 150 calls on shared modules '
             'with a 1 microsecond switch interval; nested parses started from |>, where, a class field, requires and the module-level '
             'parse; compiling an extending grammar and a grammar re-using the name',
        checker_cmd='cd /verif/coq && make -f Makefile.coq && coqc -R . SV Props/C18.v')
