"""C18 — parse calls are isolated from each other."""
import random
import sys
import threading

from .. import core
from .c11 import canon, outcome      # canonical outcome strings

GRAMMARS = {
    'arith': 'start = E\nE = /\\d+/ between {\n prefix: "-"\n left: "*"\n left: "+", "-"\n}\nignore " "\n',
    'classes': 'class K { d: /\\d/; w: /[ab]+/ }\nclass P { k: K; rest: ["," >> K]* }\nstart = P\n',
    'scoping': 'N = /\\d/ |> `int`\nstart = (let n = N in [/[ab]/{n}, `n`])*\n',
    'raising': '```\nclass Boom(Exception): pass\ndef boom(x):\n    if x == "x":\n        raise Boom()\n    return x\n```\nstart = [T, T*]\nT = /[a-z]/ |> `boom`\n',
    'templates': 'Pair(x) = [x, x]\nstart = Pair("a") | Pair(/\\d/)\n',
    # inline Python with an observable side effect: the number of callback invocations of one call is part of its outcome
    'ticking': '```\nimport threading\nticks = []\ndef tick(x):\n    ticks.append(threading.get_ident())\n    return x\n```\nstart = (T | D)+\nT = L |> `tick`\nL = /[a-z]/\nD = /\\d/\n',
    # a named grammar and one that extends it: the two modules share the parent's runtime and rule functions
    'c18pb': 'grammar c18pb\nstart = Item+\nItem = Word | Num\nWord = /[a-z]+/\nNum = /[0-9]/\n',
    'c18pc': 'grammar c18pc extends c18pb\noverride Word = /[a-z0-9]+/\n',
}
GRAMMARS['c18qb'] = 'grammar c18qb\nPair(x) = x >> x\nstart = Pair("a")\nA = Wrap("k")\nB = Wrap("k")\nWrap(x) = "(" >> x << ")"\n'
GRAMMARS['c18qc'] = 'grammar c18qc extends c18qb\nignore /\\s+/\nTwice = Pair("a")\noverride start = Twice | B\n'
# inline Python that builds a list, dict, set or tuple: a fresh object on every evaluation - one the grammar itself fills
# (an accumulator) or one that ends up in the result, where the caller may edit it
GRAMMARS['literals'] = ('class Call { name: /[a-z]+/; args: ("(" >> (/[a-z]+/ // ",") << ")") | `[]`; opts: `{}`; pair: `(1, [2])`; tags: `{"t"}` }\n'
                        'start = Call+\nignore " "\n')
GRAMMARS['accumulator'] = ('start = let seen = `[]` in Fresh(seen)*\nFresh(seen) = /[a-z]/ where `lambda w: w not in seen and not seen.append(w)`\n')
GRAMMARS['counter'] = 'start = let box = `{"n": 0}` in (/[a-z]/ |> `lambda w: box.__setitem__("n", box["n"] + 1) or box["n"]`)*\n'
REQUIRES = {'c18pc': ['c18pb'], 'c18qc': ['c18qb']}
TEXTS = {
    'arith': ['1+2*3', '1 + ', '-4--5', '2*', '', '7', '1+2+3+4+5*6*7', ' 8 '],
    'classes': ['1ab', '1ab,2b', '1ab,', 'x', '', '1a,2b,3a', '1'],
    'scoping': ['2ab1a', '1a2', '0', '3ab', '', '2aa2bb2ab'],
    'raising': ['ab', 'ax', 'x', 'abc', '', 'axb'],
    'templates': ['aa', '12', 'a1', '', 'aaa'],
    'ticking': ['ab', 'a1b', '', 'abc', '1', 'a!'],
}
TEXTS['literals'] = ['g', 'f(a,b)', 'g h', '', 'f(a) g', 'g(']
TEXTS['accumulator'] = ['abc', 'aba', 'a', '', 'abcd', 'ba']
TEXTS['counter'] = ['abc', 'a', '', 'ab']
SHARED = ['abc123', 'ab1', '1ab', 'abc', '', '12', 'a-b']
TEXTS['c18pb'] = SHARED
TEXTS['c18pc'] = SHARED          # the very same text objects go to parent and child
SHARED2 = ['aa', 'a a', 'a', ' aa', '(k)', '(z)', '( k )', 'a  a', '']
TEXTS['c18qb'] = SHARED2
TEXTS['c18qc'] = SHARED2


def call_of(rnd, names):
    n = rnd.choice(names)
    return (n, rnd.choice(TEXTS[n]), rnd.choice([0, 0, 0, 1]), rnd.choice([True, True, False]))


def tamper(x, depth=0):
    """the caller edits what it got back: nothing a later call returns may show it"""
    if depth > 6:
        return
    if isinstance(x, list):
        for y in x:
            tamper(y, depth + 1)
        x.append('tampered')
    elif isinstance(x, tuple):
        for y in x:
            tamper(y, depth + 1)
    elif isinstance(x, dict):
        for y in list(x.values()):
            tamper(y, depth + 1)
        x['tampered'] = 1
    elif isinstance(x, set):
        x.add('tampered')
    elif hasattr(x, '_fields'):
        for f in x._fields:
            tamper(getattr(x, f), depth + 1)
            try:
                setattr(x, f, 'tampered')
            except Exception:               # noqa
                pass


def do_call(mods, c, edit=False):
    n, text, pos, full = c
    g = mods[n]
    ticks = getattr(g, 'ticks', None)
    t0 = len(ticks) if ticks is not None else 0
    res = None
    try:
        res = g.parse(text, pos, full)
        out = 'return ' + canon(res)
    except g.PartialParseError as e:
        res = e.partial_result
        out = 'partial %s at %r' % (canon(e.partial_result), tuple(e.last_position))
    except g.ParseError as e:
        out = 'error at %r: %s' % (tuple(e.position), str(e)[-120:])
    except Exception as e:                      # noqa
        out = 'exception ' + type(e).__name__
    if ticks is not None:
        out += ' callbacks=%d' % ticks[t0:].count(threading.get_ident())
    if edit:
        tamper(res)
    return out


def run(R):
    R.build()
    R.prove('Props/C18.v')
    rnd = random.Random(R.seed)
    sys.path.insert(0, core.REPO)
    from sourcer import Grammar
    quick = R.tier == 'quick'

    def fresh_modules():
        return {n: Grammar(d) for n, d in GRAMMARS.items()}         # dict order: a parent before the grammar extending it
    # reference: every call on a freshly built module
    ref = {}

    def reference(c):
        if c not in ref:
            for dep in REQUIRES.get(c[0], []):
                Grammar(GRAMMARS[dep])
            ref[c] = do_call({c[0]: Grammar(GRAMMARS[c[0]])}, c)
        return ref[c]
    # ---- histories ----
    names = list(GRAMMARS)
    for h in range(60 if quick else 1500):
        mods = fresh_modules()
        few = rnd.sample(names, rnd.randrange(1, 4))
        if h % 4 == 0:
            few = ['c18pb', 'c18pc']                 # parent and child, same text objects
        elif h % 4 == 1:
            few = ['ticking', rnd.choice(names)]
        elif h % 4 == 2:
            few = ['c18qb', 'c18qc']
        hist = [call_of(rnd, few) for _ in range(rnd.randrange(2, 31))]
        for i, c in enumerate(hist):
            got = do_call(mods, c, edit=True)       # and the caller edits every result it receives
            R.count('history', (tuple(hist[:i]), c), nontrivial=i > 0)
            if got != reference(c):
                R.counterexample('history', 'outcome-depends-on-earlier-calls', {'history': hist[:i], 'call': c}, reference(c), got)
                break
        else:
            R.traces += 1
    R.samples.append({'history': [list(c) for c in hist[:4]], 'last_outcome': got})
    # ---- transient texts ----
    # texts that are built at run time and dropped after the call: the next text of the same length is likely to live at
    # the same address.  Line breaks sit at different places, so anything remembered about an earlier text (by address,
    # by length) shows in the lines and columns of spans and error positions.
    LINES = 'ignore /[ \\n]+/\nclass W { w: /[a-z]+/ }\nstart = W+\n'
    shapes = ['ab\ncd\nef\ngh', 'abcd\nefgh\ni', 'a\nbcdefghi\n', 'abcdefghijk', '\n\n\nabcdefgh', 'ab cd\nef!gh', 'abc\n!efg\nhi', 'a b\nc d\ne f',
              'ab\ncd', 'abc\nd', 'a\nbcd', 'ab!\nc', '\nabcd', 'abcde']
    lref = {}
    for h in range(40 if quick else 800):
        g = Grammar(LINES)
        seq = [rnd.choice(shapes) for _ in range(rnd.randrange(2, 12))]
        for i, shape in enumerate(seq):
            full = rnd.choice([True, False])
            if (shape, full) not in lref:
                lref[(shape, full)] = do_call({'lines': Grammar(LINES)}, ('lines', shape, 0, full))
            t = ''.join(list(shape))                # a new object every time
            got = do_call({'lines': g}, ('lines', t, 0, full), edit=True)
            del t
            R.count('transient-texts', (tuple(seq[:i]), shape, full), nontrivial=i > 0)
            if got != lref[(shape, full)]:
                R.counterexample('transient-texts', 'outcome-depends-on-earlier-calls', {'grammar': LINES, 'earlier_texts': seq[:i], 'text': shape,
                                 'fullparse': full, 'note': 'every text is a fresh object that is dropped after its call'}, lref[(shape, full)], got)
                break
        else:
            R.traces += 1
    # ---- threads ----
    mods = fresh_modules()
    old = sys.getswitchinterval()
    sys.setswitchinterval(1e-6)
    try:
        for rounds in range(6 if quick else 60):
            nthreads = rnd.choice([2, 4, 8])
            plans = [[call_of(rnd, names) for _ in range(150)] for _ in range(nthreads)]
            results = [None] * nthreads
            barrier = threading.Barrier(nthreads)

            def work(k):
                barrier.wait()
                results[k] = [do_call(mods, c) for c in plans[k]]
            ths = [threading.Thread(target=work, args=(k,)) for k in range(nthreads)]
            for t in ths:
                t.start()
            for t in ths:
                t.join()
            for k in range(nthreads):
                for c, got in zip(plans[k], results[k]):
                    R.count('threads', (rounds, k, c), nontrivial=True)
                    if got != reference(c):
                        R.counterexample('threads', 'outcome-depends-on-concurrent-calls', {'threads': nthreads, 'call': c}, reference(c), got)
                        break
                else:
                    R.traces += 1
    finally:
        sys.setswitchinterval(old)
    # ---- interleaved Grammar() constructions ----
    # several threads compile grammars at the same time; the descriptions are chosen so that anything one compilation
    # leaves where another can see it changes what the other generates: names of built-in constructors used as
    # constructors in one and as rule names in another, deeply nested bodies (helper functions), templates with
    # compound arguments, operator tables, named grammars.  Every module is judged by the outcomes of a few calls,
    # compared with the same description compiled alone.
    filler = ''.join(f'F{i} = Opt("x{i}") >> Some("y") << Sep("z", ",")\n' for i in range(12))
    deep = 'start = ' + '[' * 22 + 'D, "!"?' + ']' * 22 + '\nD = /[0-9]/\n'
    deep_no_rule = 'start = ' + '[' * 22 + '/[0-9]/, "!"?' + ']' * 22 + '\n'
    CONSTR = {
        'constructors': ('start = Opt("a") >> Some("b") << Right("c", "d")?\n' + filler, ['abb', 'b', 'bcdc', 'a', '']),
        'rules-named-like-constructors': ('start = [Opt, Some, Right?]\nOpt = "q"\nSome = "r"+\nRight = "s"\nSep = "t"\n' +
                                          filler.replace('Opt(', 'Choice(').replace('Some(', 'List(').replace('Sep(', 'Seq('), ['qr', 'qrrs', 'q', '']),
        'templates-named-like-constructors': ('Left(x, y) = [y, x]\nstart = Left("a", "b") | Skip("c")\nSkip(x) = [x, x]\n' + filler.replace('Sep(', 'Alt('), ['ba', 'cc', 'ab', '']),
        'deep': (deep, ['1', '1!', 'x', '']),
        'deep-no-rule': (deep_no_rule, ['1', '1!', 'x', '']),
        'table': ('start = /\\d/ between {\n prefix: "-"\n left: "*"\n left: "+"\n}\n' + filler, ['1+2*3', '-1', '1+', '']),
        'calls': ('Pair(x) = [x, x]\nstart = Pair("a" | "b") | Pair(N{2})\nN = /[0-9]/\n' + filler, ['aa', 'ba', '1212', '12', '']),
    }
    cref = {}
    for cn, (desc, texts) in CONSTR.items():
        g = Grammar(desc)
        cref[cn] = [outcome(g, t) for t in texts]
    old = sys.getswitchinterval()
    sys.setswitchinterval(1e-6)
    try:
        for rounds in range(4 if quick else 40):
            nthreads = rnd.choice([3, 4, 8])
            plans = [[rnd.choice(list(CONSTR)) for _ in range(10)] for _ in range(nthreads)]
            for pl in plans[:2]:
                pl[0:2] = ['constructors', 'rules-named-like-constructors'] if plans.index(pl) == 0 else ['rules-named-like-constructors', 'deep']
            results = [None] * nthreads
            barrier = threading.Barrier(nthreads)

            def build(k):
                barrier.wait()
                outs = []
                for cn in plans[k]:
                    desc, texts = CONSTR[cn]
                    try:
                        g = Grammar(desc)
                        outs.append([outcome(g, t) for t in texts])
                    except Exception as e:          # noqa
                        outs.append(['construction raised ' + type(e).__name__ + ': ' + str(e)[:80]])
                results[k] = outs
            ths = [threading.Thread(target=build, args=(k,)) for k in range(nthreads)]
            for t in ths:
                t.start()
            for t in ths:
                t.join()
            for k in range(nthreads):
                for cn, got in zip(plans[k], results[k]):
                    R.count('concurrent-constructions', (rounds, k, cn), nontrivial=True)
                    if got != cref[cn]:
                        R.counterexample('concurrent-constructions', 'module-depends-on-a-concurrent-construction',
                                         {'threads': nthreads, 'grammar': CONSTR[cn][0], 'texts': CONSTR[cn][1],
                                          'compiled_at_the_same_time': sorted(set(x for pl in plans for x in pl))}, cref[cn], got)
                        break
                else:
                    R.traces += 1
    finally:
        sys.setswitchinterval(old)
    # ---- the same descriptions compiled one after the other, in several orders (no threads): what a module does is
    # fixed by its description, not by what was compiled before it ----
    for rounds in range(3 if quick else 30):
        order = list(CONSTR) * 2
        rnd.shuffle(order)
        if rounds == 0:
            order = ['constructors', 'rules-named-like-constructors', 'constructors', 'templates-named-like-constructors', 'constructors', 'calls', 'table', 'deep', 'deep-no-rule']
        for i, cn in enumerate(order):
            desc, texts = CONSTR[cn]
            try:
                g = Grammar(desc)
                got = [outcome(g, t) for t in texts]
            except Exception as e:              # noqa
                got = ['construction raised ' + type(e).__name__ + ': ' + str(e)[:80]]
            R.count('construction-history', (rounds, i, cn), nontrivial=True)
            if got != cref[cn]:
                R.counterexample('construction-history', 'module-depends-on-earlier-constructions',
                                 {'grammar': desc, 'texts': texts, 'compiled_before': order[:i]}, cref[cn], got)
                break
        else:
            R.traces += 1
    # ---- a Grammar() construction started from the inline Python of a description that is being compiled (an option value
    # of a constructor form is evaluated at compile time): the outer compilation goes on as if nothing had happened ----
    NEST = 'Opt(x) = x >> "!"\nSome(x) = [x, x]\nfirst = Sep("a", ",", allow_trailer=`%s`)\nstart = Opt("b") | Some("c")\n'
    inner = '__import__("sourcer").Grammar("start = Opt(\'q\') >> Some(\'r\')") is not None'
    R.count('nested-construction', 'constructor-option', nontrivial=True)
    try:
        plain, nested = Grammar(NEST % 'True'), Grammar(NEST % inner)
        a = [outcome(plain, t) for t in ('b!', 'cc', 'b', 'c', '')]
        b = [outcome(nested, t) for t in ('b!', 'cc', 'b', 'c', '')]
        if a != b:
            R.counterexample('nested-construction', 'module-depends-on-a-nested-construction', {'grammar': NEST % inner}, a, b)
        else:
            R.traces += 1
    except Exception as e:                      # noqa
        R.counterexample('nested-construction', 'construction-raised:' + type(e).__name__, {'grammar': NEST % inner}, 'a grammar module', str(e)[:150])
    # ---- re-entrant parses from every kind of callback ----
    reent = {
        'apply': 'class W { v: /[a-z]+/ }\nInner = W\nstart = [W, "(" >> /[a-z]+/ |> `lambda s: Inner.parse(s)`, ")"]\n',
        'where': 'Inner = /[a-z]+/\nstart = /[a-z()]+/ where `lambda s: Inner.parse(s.strip("()")) == s.strip("()")`\n',
        'class-field': 'class W { v: /[a-z]+/ }\nInner = W\nclass Q { a: /[a-z]+/; b: `Inner.parse(a)` }\nstart = Q\n',
        'requires': 'Inner = /[a-z]+/\nclass Q { a: /[a-z]+/; requires `Inner.parse(a) == a` }\nstart = [Q, Q?]\n',
        'nested-module': 'class W { v: /[a-z]+/ }\nstart = [W, "(" >> /[a-z]+/ |> `lambda s: parse(s)[0]`, ")"] | [W]\n',
    }
    expect = {
        'apply': ('ab(cd)', "return [W('ab')@(0, 1, 1)-(1, 1, 2), W('cd')@(0, 1, 1)-(1, 1, 2), ')']"),
        'where': ('(ab)', "return '(ab)'"),
        'class-field': ('ab', "return Q('ab', W('ab')@(0, 1, 1)-(1, 1, 2))@(0, 1, 1)-(1, 1, 2)"),
        'requires': ('ab', "return [Q('ab')@(0, 1, 1)-(1, 1, 2), None]"),
        'nested-module': ('ab(cd)', "return [W('ab')@(0, 1, 1)-(1, 1, 2), W('cd')@(0, 1, 1)-(1, 1, 2), ')']"),
    }
    for name, desc in reent.items():
        g = Grammar(desc)
        text, want = expect[name]
        for rep in range(3):
            got = outcome(g, text)
            R.count('re-entrant', (name, rep), nontrivial=True)
            if got != want:
                R.counterexample('re-entrant', 'nested-parse-from-' + name, {'grammar': desc, 'text': text}, want, got)
                break
    # ---- compiling further grammars (extending / re-using the name) does not alter an existing module ----
    base = Grammar('grammar c18base\nstart = W+\nW = /[a-z]/\nclass K { w: W; rest: W* }\nPair(x) = [x, x]\nTwo = Pair(W)\n')

    def observe_all(m):
        out = []
        for t in ('ab', 'a1', '', '12', 'a'):
            out.append(outcome(m, t))
            for en in ('W', 'K', 'Two'):
                ent = getattr(m, en)
                try:
                    out.append('return ' + canon(ent.parse(t)))
                except Exception as e:          # noqa
                    out.append('exception ' + type(e).__name__ + ' ' + str(getattr(e, 'position', getattr(e, 'last_position', '')))[:40])
        return out
    before = observe_all(base)
    child = Grammar('grammar c18child extends c18base\noverride W = /[0-9]/\n')
    observe_all(child)
    mid = observe_all(base)
    other = Grammar('grammar c18base\nstart = "zzz"\n')
    after = observe_all(base)
    R.count('other-grammars', 'extend', nontrivial=True)
    R.count('other-grammars', 'reuse-name', nontrivial=True)
    if mid != before:
        R.counterexample('other-grammars', 'extending-grammar-alters-parent', {'step': 'Grammar(child extends base)'}, before, mid)
    if after != before:
        R.counterexample('other-grammars', 'name-reuse-alters-existing-module', {'step': 'Grammar with the same name'}, before, after)
    # ---- entry points of a parameterised class: C.parse(args)(text) depends on THESE arguments only, whatever equal-looking
    # arguments earlier calls on the module were given (1 / True / 1.0, tuples of them, equal strings built apart)
    TAGGED = 'class Tagged(tag) { word: /[a-z]+/; t: `tag`; ty: `type(tag).__name__` }\nclass Counted(n, unit) { items: "x"{n}; u: `unit` }\nstart = "z"\n'
    ARGS = [(1,), (True,), (1.0,), ((0, 'a'),), ((False, 'a'),), ('ab',), (''.join(['a', 'b']),), (0,), (False,), (None,), ((),), (frozenset(),)]
    CARGS = [(2, 0), (2, False), (True, 1), (1, True), (1, 1.0), (2, 0.0)]
    tref = {}

    def tcall(g, a, counted):
        try:
            return repr((g.Counted.parse(*a)('xxx', 0, False) if counted else g.Tagged.parse(*a)('ab')))
        except Exception as e:                  # noqa
            return 'exception ' + type(e).__name__
    for a in ARGS:
        tref[('t', repr(a))] = tcall(Grammar(TAGGED), a, False)
    for a in CARGS:
        tref[('c', repr(a))] = tcall(Grammar(TAGGED), a, True)
    for rounds in range(6 if quick else 60):
        g = Grammar(TAGGED)
        seq = [('t', a) for a in ARGS] + [('c', a) for a in CARGS]
        rnd.shuffle(seq)
        for i, (kind, a) in enumerate(seq):
            got = tcall(g, a, kind == 'c')
            R.count('class-entry-history', (rounds, i, kind, repr(a)), nontrivial=i > 0)
            if got != tref[(kind, repr(a))]:
                R.counterexample('class-entry-history', 'outcome-depends-on-earlier-calls',
                                 {'grammar': TAGGED, 'earlier': [repr(x) for x in seq[:i]], 'call': ('Counted' if kind == 'c' else 'Tagged') + '.parse' + repr(a)},
                                 tref[(kind, repr(a))], got)
                break
        else:
            R.traces += 1
    # ---- sequences of constructions in which a name is used again ----
    # (1) parent P, child C, another description under P's name, the SAME text of C again: the second C is built on
    #     the new P (what `extends P` denotes when it is compiled), the first C stays as it was;
    # (2) base, mid, another description under base's name, then a new leaf extending the EXISTING mid module: the leaf
    #     behaves like a leaf of a chain with the old base (mid was not altered).
    # Expected outcomes come from twins compiled under names that are used only once.
    NR_TEXTS = ['hello world', 'helloworld', 'hello  world', 'hello', 'hello worldhello world', 'hello world hello you', '', '12', 'bye you', 'bye  you']

    def nr_obs(m, entries):
        out = []
        for en in entries:
            f = m.parse if en is None else getattr(getattr(m, en, None), 'parse', None)
            for t in NR_TEXTS:
                if f is None:
                    out.append('no entry ' + str(en))
                    continue
                try:
                    out.append('return ' + canon(f(t)))
                except m.PartialParseError as e:
                    out.append('partial %s at %r' % (canon(e.partial_result), tuple(e.last_position)))
                except m.ParseError as e:
                    out.append('error at %r' % (tuple(e.position),))
                except Exception as e:          # noqa
                    out.append('exception ' + type(e).__name__)
        return out

    def build(descs):
        try:
            return [Grammar(d) for d in descs][-1]
        except Exception as e:                  # noqa
            return 'construction raised ' + type(e).__name__ + ': ' + str(e)[:100]
    Pa = 'grammar {p}\nstart = Greeting+\nGreeting = "hello" >> Word\nWord = /[a-z]+/\n'
    Pb = 'grammar {p}\nignore /[ \\t]+/\nstart = Greeting+\nGreeting = "hello" >> Word\nWord = /[a-z]+/\nExtra = "x"\n'
    Cd = 'grammar {c} extends {p}\nTwo = [Greeting, Mine]\nMine = "hello" >> Word\n'
    Md = 'grammar {m} extends {p}\nTwo = [Greeting, Greeting]\n'
    Ld = 'grammar {l} extends {m}\nBye = "bye" >> Word\n'
    EN1, EN2 = [None, 'Greeting', 'Two', 'Word', 'Mine'], [None, 'Greeting', 'Two', 'Bye']
    for rep in range(2):
        tag = f'c18nr{rep}'
        # (1)
        build([Pa.format(p=tag + 'p')])
        c1 = build([Cd.format(c=tag + 'c', p=tag + 'p')])
        o1 = nr_obs(c1, EN1) if not isinstance(c1, str) else [c1]
        build([Pb.format(p=tag + 'p')])
        c2 = build([Cd.format(c=tag + 'c', p=tag + 'p')])
        o2 = nr_obs(c2, EN1) if not isinstance(c2, str) else [c2]
        o1_after = nr_obs(c1, EN1) if not isinstance(c1, str) else [c1]
        t2 = build([Pb.format(p=tag + 'q'), Cd.format(c=tag + 'd', p=tag + 'q')])
        w2 = nr_obs(t2, EN1) if not isinstance(t2, str) else [t2]
        R.count('name-reuse', (rep, 'same-child-text-after-new-parent'), nontrivial=True)
        if o2 != w2:
            i = next((i for i, (a, b) in enumerate(zip(w2, o2)) if a != b), 0)
            R.counterexample('name-reuse', 'module-depends-on-earlier-constructions',
                             {'sequence': [Pa.format(p=tag + 'p'), Cd.format(c=tag + 'c', p=tag + 'p'), Pb.format(p=tag + 'p'), Cd.format(c=tag + 'c', p=tag + 'p')],
                              'entry': EN1[i // len(NR_TEXTS)] or 'parse', 'text': NR_TEXTS[i % len(NR_TEXTS)],
                              'note': 'expected = the last two descriptions compiled under names used once'}, w2[i:i + 1], o2[i:i + 1])
        R.count('name-reuse', (rep, 'existing-child-unaltered'), nontrivial=True)
        if o1_after != o1:
            R.counterexample('name-reuse', 'name-reuse-alters-existing-module', {'sequence': 'P, C, P again (other text), C again; the first C observed before and after'}, o1, o1_after)
        # (2)
        build([Pa.format(p=tag + 'b')])
        build([Md.format(m=tag + 'm', p=tag + 'b')])
        build([Pb.format(p=tag + 'b')])
        l2 = build([Ld.format(l=tag + 'l', m=tag + 'm')])
        o3 = nr_obs(l2, EN2) if not isinstance(l2, str) else [l2]
        t3 = build([Pa.format(p=tag + 'e'), Md.format(m=tag + 'f', p=tag + 'e'), Ld.format(l=tag + 'g', m=tag + 'f')])
        w3 = nr_obs(t3, EN2) if not isinstance(t3, str) else [t3]
        R.count('name-reuse', (rep, 'new-leaf-of-existing-module'), nontrivial=True)
        if o3 != w3:
            i = next((i for i, (a, b) in enumerate(zip(w3, o3)) if a != b), 0)
            R.counterexample('name-reuse', 'leaf-of-existing-module-depends-on-later-constructions',
                             {'sequence': [Pa.format(p=tag + 'b'), Md.format(m=tag + 'm', p=tag + 'b'), Pb.format(p=tag + 'b'), Ld.format(l=tag + 'l', m=tag + 'm')],
                              'note': 'the middle module exists and was not altered; expected = the chain base(old text), mid, leaf under names used once'},
                             w3[i:i + 1], o3[i:i + 1])
    R.assumptions += ['CPython thread scheduling and any shared state the model does not know about are only observed, not proved absent',
                      'inline Python of the raising grammar raises a dedicated exception for the input "x"']
    return R.finish(
        rule='histories of 2-30 calls on 1-3 of five modules (different texts, offsets, fullparse values, some abandoned because inline '
             'Python raises), every outcome compared with the same call on a freshly built module; 2-8 threads x 150 calls on shared modules '
             'with a 1 microsecond switch interval; nested parses started from |>, where, a class field, requires and the module-level '
             'parse; compiling an extending grammar and a grammar re-using the name; 3-8 threads constructing grammars at the same time (constructor names used as rule names in one and as constructors in another, deep bodies, templates, tables); sequences of constructions that use a name again (same child text after a new parent; a new leaf of an existing middle module)',
        checker_cmd='cd /verif/coq && make -f Makefile.coq && coqc -R . SV Props/C18.v')
