"""C04 — ignored patterns are skipped exactly at token boundaries."""
import random

from .. import core, gramrun, gen_core as G

IGNS = {
    'anon': (['ignore " "+'], [('rep', ('lit', ' '), 1, None)]),
    'named': (['ignore Sp = " "'], [('lit', ' ')]),
    'two': (['ignore Sp = /[ ]+/', 'ignore "_"'], [('rx', '[ ]+'), ('lit', '_')]),
    # several patterns that are all regular expressions, with what makes a regular expression sensitive to being
    # combined with another: numbered and named groups with backreferences, an alternation at top level
    'rx2': (['ignore /( )+/', 'ignore Cm = /#(=*)#\\1_/'], [('rx', '( )+'), ('rx', '#(=*)#\\1_')]),
    'rx3': (['ignore /[ ]+/', 'ignore /(?P<q>#)=*(?P=q)/', 'ignore /_|=_/'], [('rx', '[ ]+'), ('rx', '(?P<q>#)=*(?P=q)'), ('rx', '_|=_')]),
}
ALPHA = {'two': 'ab _', 'rx2': 'ab #', 'rx3': 'ab #'}
EXTRA = {'rx2': ('a#=#=_b', 'a##_b', 'a #=#=_ b', 'a#==#=_b', 'a#=#_b', 'ab##_', '##_ab #=#=_a', 'a##_#=#=_b', 'a# #_b'),
         'rx3': ('a#=#b', 'a##b', 'a_b', 'a=_b', 'a #==# _b', 'a=b', 'a#=b', '_a=_b##', 'a#=#_=_b', 'ab =_ ##')}


def is_leaf_lit(e):
    return e[0] in ('lit', 'ilit', 'rx', 'byte')


def explicit(e, skip):
    """the specification-level rewriting: every literal l becomes (l << Skip(I))"""
    if is_leaf_lit(e):
        if e[0] == 'lit' and e[1] == '':
            return ('left', e, skip)
        return ('left', e, skip)
    if e[0] in ('ref', 'fail', 'bt', 'py'):
        return e
    return tuple(explicit(x, skip) if isinstance(x, tuple) and x and isinstance(x[0], str) else x for x in e)


def describe(e, ign, where, klass, sname='start'):
    """sname: how the start rule is spelled (any capitalisation of "start" is the start rule)"""
    d, dx = _describe(e, ign, where, klass)
    if sname != 'start':
        d = d.replace('class Start {', f'class {sname} {{').replace('start = ', f'{sname} = ')
        dx = dx.replace('class Start {', f'class {sname} {{').replace('start = ', f'{sname} = ')
    return d, dx


def _describe(e, ign, where, klass):
    decls, pats = IGNS[ign]
    aux = 'X = "a" | "ba"'
    if klass == 'let':
        # the first member of the start class is an omitted constant member: ignorable text is skipped before IT
        body = f'class Start {{\n  let t: "b"\n  x: {G.render(e)}\n  y: Opt("b")\n}}'
    elif klass:
        body = f'class Start {{\n  x: {G.render(e)}\n  y: Opt("b")\n}}'
    else:
        body = f'start = {G.render(e)}'
    parts = (decls + [body, aux]) if where == 'before' else ([body, aux] + decls)
    d = '\n'.join(parts) + '\n'
    # the explicit version: no ignore declarations
    skip = ('skip',) + tuple(pats)
    ee = explicit(e, skip)
    auxx = 'X = ' + G.render(explicit(('alt', ('lit', 'a'), ('lit', 'ba')), skip))
    if klass == 'let':
        bodyx = (f'class Start {{\n  let t: {G.render(("right", skip, explicit(("lit", "b"), skip)))}\n  x: {G.render(ee)}\n'
                 f'  y: Opt({G.render(explicit(("lit", "b"), skip))})\n}}')
    elif klass:
        bodyx = (f'class Start {{\n  x: {G.render(("right", skip, ee))}\n  y: Opt({G.render(explicit(("lit", "b"), skip))})\n}}')
    else:
        bodyx = f'start = {G.render(("right", skip, ee))}'
    dx = bodyx + '\n' + auxx + '\n'
    return d, dx


def walk(e):
    yield e
    for x in e[1:]:
        if isinstance(x, tuple) and x and isinstance(x[0], str):
            yield from walk(x)


def jobs_for(tier, rnd):
    d2 = [e for e in G.depth2() if G.well_formed(e, G.RULES_NULLABLE)
          and not any(x[0] in ('byte', 'bt') for x in walk(e))]
    strat = []
    for e in d2:
        if e[0] in ('lit', 'ilit', 'rx', 'fail', 'ref'):
            continue
        for c in G.contexts(e, ('lit', 'ab')):
            if G.well_formed(c, G.RULES_NULLABLE) and not any(x[0] in ('byte', 'bt') for x in walk(c)):
                strat.append(c)
    rnd.shuffle(strat)
    es = d2 + strat[:400 if tier == 'quick' else 900]
    variants = [(i, w, k) for i in IGNS for w in ('before', 'after') for k in (False, True, 'let')]
    jobs, gid = [], 0
    pairs = {}
    for n, e in enumerate(es):
        vs = [variants[(n + j * 5) % len(variants)] for j in range(2 if tier == 'quick' else 3)]
        for ign, where, klass in vs:
            alpha = ALPHA.get(ign, 'ab ')
            TX = G.texts(alpha, 4, extra=(' a b ', 'a  b', 'ab  ', '  ab', ' a  a  b', ' b a', '  b ab', ' b  a b') + EXTRA.get(ign, ()))
            sname = ['start', 'start', 'Start', 'START', 'sTaRt', 'start'][(n + len(ign)) % 6]
            d, dx = describe(e, ign, where, klass, sname)
            opts = {'ign': ign, 'where': where, 'klass': klass, 'start_spelled': sname}
            jobs.append((gid, d, TX, dict(opts, role='ignore')))
            jobs.append((gid + 1, dx, TX, dict(opts, role='explicit')))
            pairs[gid] = gid + 1
            gid += 2
    # several patterns of which an EARLIER one is a sequence that can match its first token and then fail, while a
    # later one matches text with the same beginning (the position must be restored between the patterns of a round);
    # no explicit twin here (literals of an ignore pattern skip too): judged by the model and the specification
    multis = [
        ['ignore Pr = "#" >> "_"', 'ignore Cm = /#[ ]?/'],
        ['ignore Pr = ["#", "#", "_"]', 'ignore Cm = "#"', 'ignore " "'],
        ['ignore Pr = "#" >> ("_" | "##")', 'ignore /#/'],
        ['ignore /[ ]+/', 'ignore Pr = "#" >> "_"', 'ignore Cm = "#" >> "#"'],
    ]
    shapes = [('rep', ('ref', 'X'), None, None), ('seq', ('ref', 'X'), ('opt', ('lit', 'b'))), ('sep', ('ref', 'X'), ('lit', 'b'), (True, True, True, False)),
              ('alt', ('seq', ('lit', 'a'), ('lit', 'b')), ('rep', ('lit', 'a'), 1, None)), ('seq', ('expect', ('lit', 'a')), ('rep', ('rx', '[ab]'), None, None))]
    TXM = G.texts('a#_ ', 4, extra=('a# b', 'a#_b', 'a##_a', 'a## a', '#a#', 'a #_ #a', 'a#  a', '##a', 'a###', 'a#_#a', 'ab#', 'a# #_a'))
    for decls in multis:
        for e in shapes:
            for where in ('before', 'after'):
                for klass in (False, True):
                    body = f'class Start {{\n  x: {G.render(e)}\n  y: Opt("b")\n}}' if klass else f'start = {G.render(e)}'
                    parts = (decls + [body, 'X = "a" | "ba"']) if where == 'before' else ([body, 'X = "a" | "ba"'] + decls)
                    jobs.append((gid, '\n'.join(parts) + '\n', TXM, {'ign': 'multi', 'where': where, 'klass': klass, 'role': 'ignore-multi'}))
                    gid += 1
    # a literal that can match nothing (zero-width regex match) still ends a token: ignorable text after it is skipped.
    # Visible where nothing has cleaned the position before: every rule as entry point, and after a Backtrack.
    for d in ['start = Num*\nNum = /-?/ >> /[ab]+/\nignore /[ ]+/\n', 'Nums = (/-?/ >> /[ab]+/)*\nstart = Nums\nOne = /-?/ >> "a"\nignore /[ ]+/\n',
              'start = "a" >> Backtrack(1) >> /b?/ >> "a"\nignore /[ ]+/\n', 'class Start {\n  m: /-?/\n  w: /[ab]+/\n}\nW = /-?/ >> "b"\nignore Sp = /[ ]+/\n']:
        jobs.append((gid, d, G.texts('ab- ', 4, extra=(' a', ' -a', '- a', ' - a b', 'a  b', '  b')), {'ign': 'zero-width', 'where': 'after', 'klass': 'class' in d,
                     'role': 'ignore-zero-width', 'entries': 'all', 'positions': [0, 1]}))
        gid += 1
    # ignore patterns that can match without consuming anything (an optional, a starred rule, a lookahead): such a match
    # skips nothing, and the run of ignorable text ends there - the parse must not spin.  (A zero-width REGEX literal inside an
    # ignore rule is left out: literals of ignore rules skip too, so `ignore /[ ]*/` calls itself at the same position -
    # left recursion, divergent in the specification as well.)
    nullables = [
        ['ignore " "?'], ['ignore Sp = " "*'], ['ignore Opt("#")', 'ignore " "'], ['ignore Sp = " "*', 'ignore Cm = "#" >> "_"?'],
        ['ignore Expect("a")', 'ignore " "'], ['ignore Sp = (" " | "")'],
    ]
    TXN = G.texts('ab# ', 4, extra=(' a b ', 'a  b', 'ab  ', '  ab', ' a  a  b', 'a #b', 'a#_ b', '# a'))
    for decls in nullables:
        for e in shapes:
            for where in ('before', 'after'):
                body = f'start = {G.render(e)}'
                parts = (decls + [body, 'X = "a" | "ba"']) if where == 'before' else ([body, 'X = "a" | "ba"'] + decls)
                jobs.append((gid, '\n'.join(parts) + '\n', TXN, {'ign': 'nullable', 'where': where, 'klass': False, 'role': 'ignore-nullable-pattern'}))
                gid += 1
    # binary grammars: byte literals (0xNN), bytes string literals and bytes regular expressions are literals too - each
    # skips the ignorable bytes after it; with the explicit twin
    BY = ('byte', 0x61)
    bleaves = [BY, ('lit', 'b'), ('rx', '[ab]'), ('byte', 0x62)]
    bexprs = []
    for x in bleaves:
        bexprs += [x, ('opt', x), ('rep', x, None, None), ('rep', x, 1, 2), ('expect', x)]
        for y in bleaves:
            bexprs += [('seq', x, y), ('alt', ('seq', x, y), y), ('left', x, y), ('right', x, y), ('sep', x, y, (True, False, True, False)),
                       ('seq', ('expect', x), y), ('seq', ('rep', x, None, None), y)]
    bexprs = [e for e in bexprs if G.well_formed(e, G.RULES_NULLABLE) and any(z[0] == 'byte' for z in walk(e))]
    if tier == 'quick':
        rnd.shuffle(bexprs)
        bexprs = bexprs[:60]
    TXB = G.texts('ab ', 4, extra=(' a b ', 'a  b', 'ab  ', '  ab', 'a b a', 'a  a  b'))
    for e in bexprs:
        for decl, pats in (('ignore b/[ ]+/', [('rx', '[ ]+')]), ('ignore Sp = 0x20', [('byte', 0x20)])):
            for where in ('before', 'after'):
                body = f'start = {G.render(e, "bytes")}'
                d = (decl + '\n' + body + '\n') if where == 'before' else (body + '\n' + decl + '\n')
                skip = ('skip',) + tuple(pats)
                dx = 'start = ' + G.render(('right', skip, explicit(e, skip)), 'bytes') + '\n'
                opts = {'ign': 'bytes', 'where': where, 'klass': False, 'bytes': True}
                jobs.append((gid, d, TXB, dict(opts, role='ignore')))
                jobs.append((gid + 1, dx, TXB, dict(opts, role='explicit')))
                pairs[gid] = gid + 1
                gid += 2
    return jobs, pairs


def check_structure(r):
    """the translator's rewriting, stated directly on the exported expression objects"""
    ex = r['ex']
    problems = []
    names = ex['rule_names']
    if '_ignored' not in names:
        return ['no _ignored rule']
    ign_idx = names.index('_ignored')

    def lits(x, acc):
        if isinstance(x, list) and x and isinstance(x[0], str):
            if x[0] in ('Str', 'Rx', 'Byte'):
                acc.append(x)
            for y in x[1:]:
                lits(y, acc)
        elif isinstance(x, list):
            for y in x:
                lits(y, acc)
    for i, (params, body) in enumerate(ex['rules']):
        acc = []
        lits(body, acc)
        for l in acc:
            if l[-1] is not True and not (l[0] == 'Str' and l[1] == []):
                problems.append(f'literal without skip flag in rule {names[i]}')
    body = ex['rules'][ign_idx][1]
    if not (isinstance(body, list) and body[0] == 'Skip'):
        problems.append('_ignored is not a Skip')
    return problems


def run(R):
    R.build()
    R.prove('Props/C04.v')
    from ..flagtie import regen_and_tie_flags
    regen_and_tie_flags(R)       # the flag methods of the current source, translated, equal Model.always / Model.partial
    rnd = random.Random(R.seed)
    jobs, pairs = jobs_for(R.tier, rnd)
    R.extra['grammars'] = len(jobs)
    byid = {}
    for i in range(0, len(jobs), 1000):
        recs = gramrun.run_grammars(jobs[i:i + 1000])
        gramrun.compare(R, recs, 'ignore', lambda r, c, g, w: 'ignore-semantics', reject_is_violation=True)
        for r in recs:
            byid[r['gid']] = r
    # structure of the translator's output + the explicit rewriting agrees
    nstruct = npairs = 0
    for a, b in pairs.items():
        ra, rb = byid.get(a), byid.get(b)
        if ra is None or 'ex' not in ra:
            if ra is not None and 'grammar_error' in ra and ra['grammar_error'] != 'unconfirmed-timeout':
                R.counterexample('translator', 'grammar-construction:' + (ra['grammar_error'].split(':') + ['?'])[1],
                                 {'grammar': ra['desc']}, 'a grammar module', ra['grammar_error'])
            continue
        nstruct += 1
        R.count('translator-structure', ra['desc'])
        for p in check_structure(ra):
            R.counterexample('translator-structure', 'skip-flag-placement', {'grammar': ra['desc']}, 'every literal flagged, _ignored = Skip(...)', p)
        if rb is None or 'ex' not in rb:
            continue
        for ca, cb in zip(ra['cases'], rb['cases']):
            npairs += 1
            xa, xb = ca[5], cb[5]
            R.count('explicit-rewriting', (ra['desc'], ca[0]))
            same = (xa == xb) or (xa.startswith('(done false') and xb.startswith('(done false')) \
                or (xa == 'timeout' and xb == 'timeout')
            if not same:
                R.counterexample('explicit-rewriting', 'skip-not-at-token-boundaries',
                                 {'grammar': ra['desc'], 'explicit': rb['desc'], 'text': ca[0]},
                                 'same outcome as the grammar with every literal l written (l << Skip(I)) and the start body Skip(I) >> body: ' + xb, xa)
    # lengthening a run of ignorable text changes no parsed value
    meta = 0
    for a in pairs:
        ra = byid.get(a)
        if ra is None or 'ex' not in ra:
            continue
        res = {c[0]: c[5] for c in ra['cases']}
        for text, x in res.items():
            if ' ' not in text or not x.startswith('(done true'):
                continue
            longer = text.replace(' ', '  ', 1)
            if longer in res:
                meta += 1
                R.count('insensitive', (ra['desc'], text))
                va = x[len('(done true '):].rsplit(' ', 1)[0]
                vb = res[longer][len('(done true '):].rsplit(' ', 1)[0] if res[longer].startswith('(done true') else res[longer]
                # spans move with the text: compare values with spans stripped
                import re
                strip = lambda s: re.sub(r' \d+ \d+\)', ')', s)
                if strip(va) != strip(vb):
                    R.counterexample('insensitive', 'lengthened-run-changes-value',
                                     {'grammar': ra['desc'], 'text': text, 'longer': longer}, va, vb)
    R.extra['pairs_compared'] = npairs
    R.extra['metamorphic_pairs'] = meta
    R.assumptions += ['token matchers of the generated grammars cannot match or look at the ignorable characters (space, underscore)',
                      'Backtrack is not generated (the property excludes looking behind)']
    return R.finish(
        rule='core expression shapes (depth<=2 and restoring contexts) x ignore declarations {anonymous, named, two patterns, two and three regular expressions with groups, backreferences and top-level alternation} x '
             '{declared before, after the rules} x {plain start rule, class start rule}; inputs over {a,b,space[,_]} up to length 4; '
             'three judgements: model/spec vs implementation on the translator\'s output, the same grammar with skipping written '
             'explicitly (l << Skip(I), start = Skip(I) >> body), and lengthened ignorable runs',
        checker_cmd='cd /verif/coq && make -f Makefile.coq && coqc -R . SV Props/C04.v')
