"""C14 — parsed objects are values: equality, hashing, copying and repr agree."""
import copy
import pickle
import sys
import random

from .. import core, trees
from .c16 import CLS


def export(v):
    """-> model value, or None when the tree contains a dict / float (outside the model)"""
    if v is None:
        return 'none'
    if isinstance(v, bool):
        return ['num', int(v)]
    if isinstance(v, int):
        if abs(v) > 10 ** 9:
            return ['num', v % 1000003]          # big ints: distinct values stay distinct in the generated pool
        return ['num', v]
    if isinstance(v, str):
        return ['str', [ord(c) for c in v]]
    if isinstance(v, bytes):
        return ['bytes', list(v)]
    if isinstance(v, list):
        xs = [export(x) for x in v]
        return None if any(x is None for x in xs) else ['L', xs]
    if isinstance(v, tuple):
        xs = [export(x) for x in v]
        return None if any(x is None for x in xs) else ['T', xs]
    if trees.is_obj(v):
        xs = [export(getattr(v, f)) for f in v._fields]
        return None if any(x is None for x in xs) else ['O', CLS.index(type(v).__name__) + 1, xs]
    return None


def mutate(rnd, v, g):
    """a structurally close variant: equal copy, or one leaf / class / container kind changed"""
    k = rnd.randrange(6)
    if k == 0:
        return clone(v)
    if trees.is_obj(v):
        if not v._fields or k == 1:
            other = [c for c in (g.A, g.B, g.E0, g.T3, g.Infix, g.Prefix, g.Postfix) if len(c._fields) == len(v._fields)]
            return rnd.choice(other)(*[getattr(v, f) for f in v._fields])
        f = rnd.choice(v._fields)
        return v._replace(**{f: mutate(rnd, getattr(v, f), g)})
    if isinstance(v, list):
        if k == 1:
            return tuple(v)
        if not v:
            return [None]
        i = rnd.randrange(len(v))
        return v[:i] + [mutate(rnd, v[i], g)] + v[i + 1:]
    if isinstance(v, tuple):
        if k == 1:
            return list(v)
        if not v:
            return (None,)
        i = rnd.randrange(len(v))
        return v[:i] + (mutate(rnd, v[i], g),) + v[i + 1:]
    if isinstance(v, dict):
        items = list(v.items())
        rnd.shuffle(items)
        d = dict(items)
        if items and k > 2:
            d[items[0][0]] = mutate(rnd, items[0][1], g)
        return d
    return rnd.choice([None, True, 1, 0, 2, 'a', 'aa', 'ab', b'ab', False, v])


def clone(v):
    """structural copy that does not depend on the copy protocol of the objects under test"""
    if trees.is_obj(v):
        r = type(v)(*[clone(getattr(v, f)) for f in v._fields])
        r._metadata.update(v._metadata)
        return r
    if isinstance(v, list):
        return [clone(x) for x in v]
    if isinstance(v, tuple):
        return tuple(clone(x) for x in v)
    if isinstance(v, dict):
        return {k: clone(x) for k, x in v.items()}
    return v


def safe(f):
    try:
        return ('ok', f())
    except Exception as e:                      # noqa
        return ('exc', type(e).__name__)


CHILD = r'''
import pickle, sys
sys.path.insert(0, sys.argv[1])
from sourcer import Grammar
g = Grammar(sys.argv[2])
objs = [g.A('a', 'b'), g.A(['x', 'yy'], ('t', 1)), g.B({'k': 'v'}), g.T3('p', g.B('c'), [g.E0(), 'zz']), g.Infix('l', '+', g.A('a', 'b')), g.E0()]
for o in objs:
    hash(o)                    # the hash is computed (and remembered by the object) in THIS process
    o._metadata.position_info = (1, 2)
sys.stdout.buffer.write(pickle.dumps(objs))
'''


def other_process_pickles(R):
    """objects pickled by ANOTHER process (whose strings hash differently): the unpickled objects are equal to freshly
    built ones here, so they must hash like them and be found in sets and dicts"""
    import os
    import subprocess
    g = trees.module()
    fresh = [g.A('a', 'b'), g.A(['x', 'yy'], ('t', 1)), g.B({'k': 'v'}), g.T3('p', g.B('c'), [g.E0(), 'zz']), g.Infix('l', '+', g.A('a', 'b')), g.E0()]
    for seed in ('1', '2', '12345'):
        env = dict(os.environ, PYTHONHASHSEED=seed)
        p = subprocess.run([sys.executable, '-c', CHILD, core.REPO, trees.GRAMMAR], capture_output=True, env=env, timeout=120)
        R.count('pickle-other-process', seed, nontrivial=True)
        if p.returncode != 0:
            R.counterexample('pickle-other-process', 'child-process-failed', {'hash_seed': seed}, 'a pickle', p.stderr.decode()[-300:])
            continue
        try:
            objs = pickle.loads(p.stdout)
        except Exception as e:          # noqa
            R.counterexample('pickle-other-process', 'unpickling-failed:' + type(e).__name__, {'hash_seed': seed}, 'objects', str(e)[:200])
            continue
        for o, f in zip(objs, fresh):
            R.count('pickle-other-process', (seed, repr(f)), nontrivial=True)
            ok = o == f and f == o and hash(o) == hash(f) and o in {f} and o._metadata.position_info == (1, 2)
            if not ok:
                R.counterexample('pickle-other-process', 'unpickled-equal-object-hashes-differently',
                                 {'object': repr(f), 'pickled_with_PYTHONHASHSEED': seed, 'unpickled_with_PYTHONHASHSEED': os.environ.get('PYTHONHASHSEED')},
                                 'equal, same hash, found in a set of its equals', {'equal': o == f, 'hash_equal': hash(o) == hash(f), 'in_set': o in {f}})
            else:
                R.traces += 1


def run(R):
    R.build()
    R.prove('Props/C14.v')
    rnd = random.Random(R.seed)
    g = trees.module()
    n = 3000 if R.tier == 'quick' else 60000
    reqs, meta = [], []
    for i in range(n):
        pool = []
        a = trees.gen(rnd, rnd.choice([1, 2, 2, 3]), pool, share=0.15)
        if not trees.is_obj(a):
            a = g.B(a)
        b = mutate(rnd, a, g)
        if i % 5 == 0:
            # stratum: ONE object (list, tuple) occurs several times in the left operand; the right operand equals it at
            # some occurrences and differs at one (any position): == compares every pair of fields
            s0 = trees.gen(rnd, rnd.choice([1, 2]), [], share=0.0, kinds=('obj', 'list', 'tuple', 'leaf'))
            if not (trees.is_obj(s0) or isinstance(s0, (list, tuple))):
                s0 = [s0, s0]
            wrap = rnd.choice([lambda x, y, z: g.A(x, y), lambda x, y, z: g.T3(x, y, z), lambda x, y, z: g.Infix(x, y, z),
                               lambda x, y, z: g.B([x, y, z]), lambda x, y, z: g.B((x, [y, z])), lambda x, y, z: g.A(g.B(x), g.B(y))])
            a = wrap(s0, s0, s0)
            parts = [clone(s0), clone(s0), clone(s0)]
            k0 = rnd.randrange(4)
            if k0 < 3:
                m0 = mutate(rnd, s0, g)
                parts[k0] = m0
            b = wrap(*parts)
            if rnd.random() < 0.5:
                a, b = b, a
        c = mutate(rnd, b, g)
        R.count('eq', repr((a, b))[:300], nontrivial=True)
        case = {'a': repr(a)[:300], 'b': repr(b)[:300]}
        ab, ba = safe(lambda: a == b), safe(lambda: b == a)
        bc, ac = safe(lambda: b == c), safe(lambda: a == c)
        # the specification, judged directly on the implementation
        if safe(lambda: a == a) != ('ok', True):
            R.counterexample('eq', 'eq-not-reflexive', case, True, safe(lambda: a == a))
        if ab != ba:
            R.counterexample('eq', 'eq-not-symmetric', case, ab, ba)
        if ab == ('ok', True) and bc == ('ok', True) and ac != ('ok', True):
            R.counterexample('eq', 'eq-not-transitive', dict(case, c=repr(c)[:300]), True, ac)
        if ab == ('ok', True):
            ha, hb = safe(lambda: hash(a)), safe(lambda: hash(b))
            if ha[0] != 'ok' or ha != hb:
                R.counterexample('hash', 'equal-objects-different-hash', case, ha, hb)
        ea, eb = export(a), export(b)
        if ea is not None and eb is not None:
            reqs.append(core.sx(['pyeq', ea, eb]))
            meta.append((case, ab))
        if trees.is_obj(a):
            # _asdict: the fields, all of them and nothing else, in declaration order - also when the caller has hung an
            # attribute of its own on the object
            extra = rnd.random() < 0.4
            if extra:
                a.note = 'a note of the caller'
            d = safe(lambda: list(a._asdict().items()))
            want = ('ok', [(f, getattr(a, f)) for f in a._fields])
            if d[0] != 'ok' or [k for k, _ in d[1]] != list(a._fields) or any(x is not y for (_, x), (_, y) in zip(d[1], want[1])):
                R.counterexample('asdict', 'asdict-order-or-content', dict(case, extra_attribute=extra), repr(want)[:300], repr(d)[:300])
            if extra:
                del a.note
            # _replace: new object, given field replaced, others and metadata kept, original untouched
            if a._fields:
                a._metadata.position_info = (1, 2)
                f = rnd.choice(a._fields)
                before = [getattr(a, x) for x in a._fields]
                r = safe(lambda: a._replace(**{f: 'NEW'}))
                ok = (r[0] == 'ok' and r[1] is not a and type(r[1]) is type(a) and getattr(r[1], f) == 'NEW'
                      and all(getattr(r[1], x) is getattr(a, x) for x in a._fields if x != f)
                      and r[1]._metadata.position_info == (1, 2)
                      and all(x is y for x, y in zip(before, [getattr(a, x) for x in a._fields])))
                R.count('replace', repr(a)[:200])
                if not ok:
                    R.counterexample('replace', 'replace-semantics', case, 'new object differing only in the given field, metadata kept', repr(r)[:300])
            # _replace with NO field (the only form an arity-0 class has) and with EVERY field: still a new, independent
            # object - editing the result (a field, the metadata) must leave the original untouched
            for kws in ({}, {x: getattr(a, x) for x in a._fields}):
                a._metadata.position_info = (5, 6)
                r = safe(lambda: a._replace(**kws))
                R.count('replace-no-change', (repr(a)[:200], len(kws)))
                ok = (r[0] == 'ok' and r[1] is not a and type(r[1]) is type(a) and r[1] == a
                      and r[1]._metadata is not a._metadata and r[1]._metadata.position_info == (5, 6)
                      and all(getattr(r[1], x) is getattr(a, x) for x in a._fields))
                if ok:
                    r[1]._metadata.position_info = (7, 8)
                    if a._fields:
                        was = getattr(a, a._fields[0])
                        setattr(r[1], a._fields[0], 'EDITED')
                        ok = getattr(a, a._fields[0]) is was
                    ok = ok and a._metadata.position_info == (5, 6)
                if not ok:
                    R.counterexample('replace-no-change', 'replace-without-changes-is-not-a-new-object', case,
                                     'a new, equal, independent object with the same metadata', repr(r)[:300])
            # sequences: the hash is cached on first use; _replace and copies made AFTERWARDS must still hash like
            # any equal object (equal objects have equal hashes whatever was done to them before)
            if a._fields:
                hash(a)
                f = rnd.choice(a._fields)
                newval = rnd.choice(['NEWVAL', 7, None, ('t', 1), ['l']])
                r1 = safe(lambda: a._replace(**{f: newval}))
                fresh = type(a)(*[newval if x == f else getattr(a, x) for x in a._fields])
                R.count('hash-after-replace', repr(a)[:200])
                if r1[0] == 'ok':
                    h1, h2 = safe(lambda: hash(r1[1])), safe(lambda: hash(fresh))
                    if not (r1[1] == fresh) or h1 != h2 or h1[0] != 'ok':
                        R.counterexample('hash-after-replace', 'equal-objects-different-hash-after-replace', case,
                                         {'fresh': repr(fresh)[:150], 'hash': h2}, {'replaced': repr(r1[1])[:150], 'hash': h1})
                    back = safe(lambda: r1[1]._replace(**{f: getattr(a, f)}))
                    if back[0] == 'ok' and (not (back[1] == a) or safe(lambda: hash(back[1])) != safe(lambda: hash(a))):
                        R.counterexample('hash-after-replace', 'replace-round-trip-hash', case, 'equal and same hash as the original', repr(back)[:150])
            # deepcopy / pickle: equal, independent, same position metadata
            a._metadata.position_info = (3, 4)
            for name, fn in (('deepcopy', lambda: copy.deepcopy(a)), ('pickle', lambda: pickle.loads(pickle.dumps(a)))):
                r = safe(fn)
                R.count(name, repr(a)[:200])
                ok = (r[0] == 'ok' and r[1] == a and r[1] is not a and r[1]._metadata.position_info == (3, 4))
                if ok:
                    inner = [x for x in g.visit(r[1])]
                    orig = {id(x) for x in g.visit(a)}
                    ok = not any(id(x) in orig for x in inner)
                if not ok:
                    R.counterexample(name, name + '-fails:' + (r[1] if r[0] == 'exc' else 'not-equal-or-shared'), case,
                                     'an equal, independent object with the same position metadata', repr(r)[:200])
            # repr evaluated in the module's namespace rebuilds an equal object
            rr = safe(lambda: eval(repr(a), dict(vars(g))))
            R.count('repr', repr(a)[:200])
            if rr[0] != 'ok' or not (rr[1] == a):
                R.counterexample('repr', 'repr-roundtrip', case, 'eval(repr(o)) == o', repr(rr)[:200])
    for (case, ab), o in zip(meta, core.run_driver(reqs, raw=True)):
        R.count('eq-model', (case['a'], case['b']))
        want = ('ok', o == 'true')
        if ab != want:
            R.disagree('eq-model', case, ab, o)
            R.counterexample('eq-model', 'eq-differs-from-structural-equality', case, o, ab)
        else:
            R.traces += 1
    R.samples.append({'a': meta[0][0]['a'], 'b': meta[0][0]['b'], '==': str(meta[0][1])})
    R.assumptions += ['floats are not generated; dicts take part in the ==/hash/copy checks on the implementation but are outside the Coq model',
                      'builtin hash respects == on scalars (Python\'s guarantee; hypothesis of C14_eq_implies_hash)']
    other_process_pickles(R)
    return R.finish(
        rule='random trees of parsed objects (7 classes, arity 0..3) with scalar, None, list, tuple, dict and nested object fields '
             'and shared sub-objects; pairs/triples (copy, one-step mutations: leaf, class, list<->tuple, permuted dict); '
             'observables ==, both ways, hash equality, _asdict, _replace, deepcopy, pickle, eval(repr)',
        checker_cmd='cd /verif/coq && make -f Makefile.coq && coqc -R . SV Props/C14.v')
