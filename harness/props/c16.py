"""C16 — transform rewrites bottom-up, once per node, preserving metadata."""
import random

from .. import core, trees

CLS = ['A', 'B', 'E0', 'T3', 'Infix', 'Prefix', 'Postfix']


def cls_no(g, v):
    return CLS.index(type(v).__name__) + 1


def export(g, v):
    """transform's view of a tree: lists and objects are descended, everything else is a leaf"""
    ids = {}

    def num(x):
        return ids.setdefault(id(x), len(ids) + 1)

    def go(x):
        if trees.is_obj(x):
            m = x._metadata.position_info
            return ['o', num(x), cls_no(g, x), [go(getattr(x, f)) for f in x._fields], 'none' if m is None else m]
        if isinstance(x, list):
            return ['L', num(x), [go(y) for y in x]]
        return ['l', num(x)]
    return go(v), ids


def canon(g, v, ids):
    def pid(x):
        return str(ids[id(x)]) if id(x) in ids else 'n'

    def go(x):
        if trees.is_obj(x):
            m = x._metadata.position_info
            return f'(o {pid(x)} {cls_no(g, x)} ({" ".join(go(getattr(x, f)) for f in x._fields)}) {"none" if m is None else m})'
        if isinstance(x, list):
            return f'(L {pid(x)} ({" ".join(go(y) for y in x)}))'
        return f'(l {pid(x)})'
    return go(v)


def make_cb(g, spec, keep):
    kind = spec[0] if isinstance(spec, list) else spec
    if kind == 'id':
        return lambda n: n
    c = getattr(g, CLS[spec[1] - 1])
    if kind == 'wrap':
        # what an earlier callback of the chain made of the node (a scalar or a list) becomes a fresh object
        def w(n):
            if trees.is_obj(n):
                return n
            r = c()
            keep.append(r)
            return r
        return w

    def f(n):
        if type(n) is not c:
            return n
        if kind == 'repl':
            r = g.E0()
        elif kind == 'replmeta':
            r = g.E0()
            r._metadata.position_info = spec[3]
        elif kind == 'leaf':
            r = trees.fresh_str('fresh-leaf')
        elif kind == 'list':
            r = [getattr(n, x) for x in n._fields]
        elif kind == 'field':
            r = n._replace(**{n._fields[0]: trees.fresh_str('fresh-field')}) if n._fields else n
        elif kind == 'child':
            r = getattr(n, n._fields[0]) if n._fields else n
        keep.append(r)      # keep replacements alive so that id() values are not reused
        return r
    return f


def gen_tree(rnd, g):
    pool = []
    t = trees.gen(rnd, rnd.choice([1, 2, 3, 3, 4]), pool, share=rnd.choice([0.0, 0.2]),
                  kinds=('obj', 'list', 'leaf', 'tuple'))
    k = 10
    for v in pool:
        if trees.is_obj(v):
            k += 1
            if rnd.random() < 0.6:
                v._metadata.position_info = k
            else:
                v._metadata._fields.clear()
    return t


def run(R):
    R.build()
    R.prove('Props/C16.v')
    rnd = random.Random(R.seed)
    g = trees.module()
    n = 4000 if R.tier == 'quick' else 80000
    cbspecs = ['id', ['repl', 2, 3], ['repl', 1, 3], ['replmeta', 2, 3, 555], ['leaf', 2], ['leaf', 4], ['list', 1], ['list', 4],
               ['field', 1], ['field', 4], ['child', 1], ['child', 6], ['repl', 5, 3], ['field', 7], ['wrap', 3], ['wrap', 3], ['leaf', 1], ['leaf', 5]]
    reqs, meta = [], []
    for i in range(n):
        t = gen_tree(rnd, g)
        chain = [rnd.choice(cbspecs) for _ in range(rnd.choice([1, 1, 1, 2, 3]))]
        tx, ids = export(g, t)
        before = canon(g, t, ids)
        keep, log = [], []
        fs = [make_cb(g, c, keep) for c in chain]
        first = fs[0]

        def logged(nn, first=first, log=log, ids=ids):
            log.append(str(ids[id(nn)]) if id(nn) in ids else 'n')
            return first(nn)
        try:
            res = g.transform(t, logged, *fs[1:])
            got = '(' + canon(g, res, ids) + ' (' + ' '.join(log) + '))'
        except Exception as e:                  # noqa
            got = f'(exc {type(e).__name__})'
        after = canon(g, t, ids)
        base = len(ids) + 1
        reqs.append(core.sx(['transform', base, chain, tx]))
        meta.append((t, chain, got, before, after, repr(t)[:200]))
    outs = core.run_driver(reqs, raw=True)
    for (t, chain, got, before, after, rp), o in zip(meta, outs):
        case = {'tree': rp, 'callbacks': chain, 'input': before[:400]}
        R.count('transform', (before, str(chain)), nontrivial='(o ' in before)
        if got != o:
            R.disagree('transform', case, got[:500], o[:500])
        else:
            R.traces += 1
        # SPEC (C16_once): the callbacks are applied exactly once per parsed-object occurrence reachable through
        # fields and lists of the input
        nobj = before.count('(o ')
        if '(exc' not in got:
            nlog = len(got[got.rindex(' (') + 2:-2].split()) if not got.endswith('())') else 0
            if nlog != nobj:
                R.counterexample('transform', 'callback-count', case, f'{nobj} applications (one per object occurrence)', f'{nlog}: {got[:300]}')
        # SPEC: the input tree is never modified - also when a callback answers with an object of the input (its child)
        # that has no metadata: the metadata of the replaced node goes on a copy (C16_input_objects_untouched)
        if before != after:
            R.counterexample('transform', 'input-modified', case, before[:500], after[:500])
        if chain == ['id'] and '(exc' not in got:
            # identity callback: result equals the input (same shape, classes, metadata)
            import re
            strip = lambda s: re.sub(r'\((o|L|l) (\d+|n)', r'(\1', s)
            res_tree = got[1:got.rindex(' (')]
            if strip(res_tree) != strip(before):
                R.counterexample('transform', 'identity-callback-changes-tree', case, before[:400], res_tree[:400])
        if len(R.samples) < 4 and before.count('(o ') > 2:
            R.samples.append({'tree': rp, 'callbacks': chain, 'result_and_log': got[:300]})
    # SPEC stream on the implementation alone: a callback that returns an EQUAL BUT DISTINCT copy of every object (no
    # metadata of its own).  Every parent is rebuilt from its transformed children before it reaches the callback, so
    # every object of the result is one the callback returned, none is an object of the input, and each carries the
    # position metadata of the node it stands for.
    for i in range(600 if R.tier == 'quick' else 10000):
        t = gen_tree(rnd, g)
        tx, ids = export(g, t)
        returned = {}

        def copy(n2, returned=returned):
            r = type(n2)(*[getattr(n2, f) for f in n2._fields])
            returned[id(r)] = r
            return r
        R.count('fresh-copies', canon(g, t, ids), nontrivial=trees.is_obj(t))
        try:
            res = g.transform(t, copy)
        except Exception as e:                  # noqa
            R.counterexample('fresh-copies', 'exception:' + type(e).__name__, {'tree': repr(t)[:300]}, 'a tree', str(e)[:100])
            continue
        bad = []

        def walk2(a, b, path):
            if trees.is_obj(b):
                if id(b) in ids:
                    bad.append((path, 'object of the result is the input node, not what the callback returned'))
                elif trees.is_obj(a) and b._metadata.position_info != a._metadata.position_info:
                    bad.append((path, f'metadata {b._metadata.position_info} instead of {a._metadata.position_info}'))
                if trees.is_obj(a) and type(a) is type(b):
                    for f in b._fields:
                        walk2(getattr(a, f), getattr(b, f), path + '.' + f)
            elif isinstance(b, list) and isinstance(a, list) and len(a) == len(b):
                for k2, (x, y) in enumerate(zip(a, b)):
                    walk2(x, y, f'{path}[{k2}]')
        walk2(t, res, 'root')
        if bad or not (res == t):
            R.counterexample('fresh-copies', 'replacement-object-not-in-result', {'tree': repr(t)[:300], 'callback': 'equal but distinct copy of every object'},
                             'every object of the result is a copy made by the callback, with the metadata of the node it stands for', bad[:3] or 'result != input')
        else:
            R.traces += 1
    # SPEC stream: a chain whose first callback turns a node into a scalar (or a list) and whose second callback turns
    # that into a fresh parsed object without metadata: the object stands for the node and must carry its metadata
    for i in range(400 if R.tier == 'quick' else 6000):
        t = gen_tree(rnd, g)
        cname = rnd.choice(['A', 'B', 'T3', 'Prefix', 'Infix'])
        c = getattr(g, cname)
        via_list = rnd.random() < 0.3
        origin, made, keep2 = {}, {}, []

        def f1(n2):
            if type(n2) is not c or n2._metadata.position_info is None:
                return n2
            r = [trees.fresh_str('marker')] if via_list else trees.fresh_str('marker')
            origin[id(r)] = n2._metadata.position_info
            keep2.append(r)
            return r

        def f2(n2):
            if id(n2) in origin:
                r = g.E0()
                made[id(r)] = origin[id(n2)]
                keep2.append(r)
                return r
            return n2
        R.count('metadata-through-chain', (repr(t)[:200], cname, via_list), nontrivial=True)
        try:
            res = g.transform(t, f1, f2, lambda n2: n2)
        except Exception as e:                  # noqa
            R.counterexample('metadata-through-chain', 'exception:' + type(e).__name__, {'tree': repr(t)[:300]}, 'a tree', str(e)[:100])
            continue
        bad = []
        stack, seen = [res], set()
        while stack:
            x = stack.pop()
            if id(x) in seen:
                continue
            seen.add(id(x))
            if trees.is_obj(x):
                if id(x) in made and x._metadata.position_info != made[id(x)]:
                    bad.append((made[id(x)], x._metadata.position_info))
                stack.extend(getattr(x, f) for f in x._fields)
            elif isinstance(x, list):
                stack.extend(x)
        if bad:
            R.counterexample('metadata-through-chain', 'replacement-loses-metadata-through-a-scalar', {'tree': repr(t)[:300], 'class': cname,
                             'chain': ['node -> ' + ('list' if via_list else 'scalar'), 'that -> fresh object', 'identity']},
                             f'position metadata {bad[0][0]} of the node the object stands for', bad[0][1])
        else:
            R.traces += 1
    # SPEC stream: leaves that merely LOOK like parsed objects (namedtuples have _fields and _replace; objects of another
    # grammar module; plain classes with a _fields attribute) and containers that are not "fields and lists" (tuples,
    # dicts, sets) pass through unchanged: the very same object, no callback applied to it, nothing inside it rewritten
    import collections
    import sys as _sys
    _sys.path.insert(0, core.REPO)
    from sourcer import Grammar
    g2 = Grammar('class Pt { x: /[a-z]/ }\nclass Box { inner: Pt; more: Pt* }\nstart = Box\n')
    other = Grammar('class Pt { x: /[a-z]/ }\nstart = Pt\n')
    Version = collections.namedtuple('Version', 'major minor holder')

    class Lookalike:
        _fields = ('a',)

        def __init__(self, a):
            self.a = a

        def _replace(self, **kw):
            return Lookalike(kw.get('a', self.a))

    def foreign_leaves():
        inner = g2.Pt('q')
        return [('namedtuple', Version(1, 2, inner), inner), ('namedtuple-in-list', [Version(3, 4, inner)], inner), ('other-module-object', other.Pt('z'), None),
                ('lookalike', Lookalike(inner), inner), ('tuple', (inner, 'k'), inner), ('dict', {'k': inner}, inner), ('frozenset', frozenset(['k']), None),
                ('namedtuple-of-lists', Version([inner], 0, 0), inner)]
    for label, leaf, inner in foreign_leaves():
        for place in ('field', 'list', 'root-list'):
            pt = g2.Pt('a')
            if place == 'field':
                tree = g2.Box(pt, [g2.Pt('b')])
                tree.inner = leaf                       # a field holding the leaf
                holder = lambda r: r.inner
            elif place == 'list':
                tree = g2.Box(pt, [leaf, g2.Pt('b')])
                holder = lambda r: r.more[0]
            else:
                tree = [leaf, g2.Box(pt, [])]
                holder = lambda r: r[0]
            seen = []

            def cb(n2, seen=seen):
                seen.append(n2)
                return g2.Pt('R') if isinstance(n2, g2.Pt) else n2
            R.count('foreign-leaves', (label, place), nontrivial=True)
            try:
                res = g2.transform(tree, cb)
            except Exception as e:                  # noqa
                R.counterexample('foreign-leaves', 'exception:' + type(e).__name__, {'leaf': label, 'place': place}, 'a tree', str(e)[:100])
                continue
            got = holder(res)
            leaf0 = leaf[0] if (label == 'namedtuple-in-list' and place != 'x') else leaf
            want_same = leaf
            problems = []
            if got is not want_same and not (isinstance(leaf, list) and isinstance(got, list) and len(got) == len(leaf) and all(a is b for a, b in zip(got, leaf))):
                problems.append('the leaf was rebuilt or replaced: %r' % (got,))
            if any(x is leaf or (isinstance(leaf, list) and any(x is y for y in leaf)) for x in seen if not isinstance(x, list)):
                problems.append('a callback was applied to the leaf')
            if inner is not None and any(x is inner for x in seen):
                problems.append('a callback was applied to an object held inside the leaf')
            if problems:
                R.counterexample('foreign-leaves', 'leaf-that-looks-like-an-object-is-transformed', {'leaf': label, 'place': place},
                                 'the same object, untouched and unvisited', problems)
            else:
                R.traces += 1
    R.assumptions += ['callbacks come from a closed family (identity; replace a class by a fresh object with/without metadata, by a scalar, '
                      'by a list of its fields, by a _replace copy, by its first field); identities of objects made by callbacks are not compared',
                      'a callback that returns a node of the input with empty metadata makes transform write that node\'s metadata: counted, '
                      'not judged (the property speaks of replacement objects)']
    return R.finish(
        rule='random trees (objects of 7 classes incl. Infix/Prefix/Postfix, lists, tuples and scalars as leaves, shared '
             'sub-objects, metadata present/absent) x chains of 1-3 callbacks from a closed family; observables: result tree with '
             'identity relation to the input, metadata of every node, callback log, deep snapshot of the input before/after; '
             'non-trivial = the tree contains an object',
        checker_cmd='cd /verif/coq && make -f Makefile.coq && coqc -R . SV Props/C16.v')
