"""C15 — visit and traverse enumerate the whole tree, once, in order."""
import random

from .. import core, trees


def field_index(parent, field):
    if parent is None:
        return 0
    if trees.is_obj(parent):
        return list(parent._fields).index(field)
    if isinstance(parent, dict):
        return list(parent.keys()).index(field)
    return field


def observe(g, tree):
    tx, ids = trees.export(tree)
    num = lambda x: ids.get(id(x), 0)
    try:
        vis = '(' + ' '.join(str(num(x)) for x in g.visit(tree)) + ')'
    except Exception as e:                      # noqa
        vis = f'(exc {type(e).__name__})'
    try:
        evs = []
        for t in g.traverse(tree):
            p = 0 if t.parent is None else num(t.parent)
            evs.append(f'({p} {field_index(t.parent, t.field)} {num(t.child)} {"true" if t.is_finished else "false"})')
        tr = '(' + ' '.join(evs) + ')'
    except Exception as e:                      # noqa
        tr = f'(exc {type(e).__name__})'
    return tx, vis, tr


def run(R):
    R.build()
    R.prove('Props/C15.v')
    rnd = random.Random(R.seed)
    g = trees.module()
    n = 3000 if R.tier == 'quick' else 60000
    cases = []
    fixed = [[1, 1, None, None, 'a', 'a'], g.T3(1, 1, None), g.A(None, None), [[], [], (), ()],
             {'k': g.B(1), 'j': g.B(1)}, g.A(g.B(1), [g.B(2), (g.B(3), {'d': g.B(4)})])]
    shared = g.B('s')
    fixed += [[shared, shared, [shared]], g.A(shared, g.A(shared, shared))]
    lst = [1, 2]
    fixed += [[lst, lst, (lst,)], g.A(lst, lst)]
    for t in fixed:
        cases.append(t)
    while len(cases) < n:
        pool = []
        cases.append(trees.gen(rnd, rnd.choice([1, 2, 3, 3, 4]), pool, share=rnd.choice([0.0, 0.2, 0.4])))
    obs = [observe(g, t) for t in cases]
    vreq = [core.sx(['visit', tx]) for tx, _, _ in obs]
    treq = [core.sx(['traverse', tx]) for tx, _, _ in obs]
    vout = core.run_driver(vreq, raw=True)
    tout = core.run_driver(treq, raw=True)
    for t, (tx, vis, tr), vo, to in zip(cases, obs, vout, tout):
        sz = trees.size(t)
        R.count('visit', core.sx(tx), nontrivial=sz > 2)
        R.count('traverse', core.sx(tx), nontrivial=sz > 2)
        vm, vs = split2(vo)
        tm, ts = split2(to)
        case = {'tree': repr(t)[:300], 'identities': core.sx(tx)[:400]}
        if vis != vm:
            R.disagree('visit', case, vis, vm)
        else:
            R.traces += 1
        if vis != vs:
            R.counterexample('visit', 'visit-order-or-completeness', case, vs, vis)
        if tr != tm:
            R.disagree('traverse', case, tr[:600], tm[:600])
        else:
            R.traces += 1
        if tr != ts:
            R.counterexample('traverse', 'traverse-events', case, ts[:800], tr[:800])
        if len(R.samples) < 4 and sz > 5:
            R.samples.append({'tree': repr(t)[:200], 'visit': vis, 'traverse': tr[:300]})
    # containers that contain themselves, and containers shared many times: expanded only the first time they are met
    from ..impl import with_timeout, Timeout

    def ref_visit(root):
        """SPEC: preorder, every object AND every container expanded only the first time it is met"""
        out, seen = [], set()

        def go(x):
            if isinstance(x, (list, tuple, dict)) or trees.is_obj(x):
                if id(x) in seen:
                    return
                seen.add(id(x))
            if trees.is_obj(x):
                out.append(x)
                for f in x._fields:
                    go(getattr(x, f))
            elif isinstance(x, (list, tuple)):
                for y in x:
                    go(y)
            elif isinstance(x, dict):
                for y in x.values():
                    go(y)
        go(root)
        return out
    cyc = []
    a, b, c = g.B('a'), g.B('b'), g.B('c')
    l1 = [a]; l1.append(l1); cyc.append(('list-in-itself', l1))
    l2 = [a, b]; l2.insert(1, [c, l2]); cyc.append(('list-in-nested-list', l2))
    d1 = {'x': a}; d1['self'] = d1; d1['y'] = b; cyc.append(('dict-in-itself', d1))
    l3 = [b]; o3 = g.A(a, l3); l3.append(o3); cyc.append(('object-in-its-own-field', o3))
    l4 = [a]; t4 = (l4, b); l4.append(t4); cyc.append(('tuple-and-list-cycle', t4))
    for name, root in cyc:
        R.count('cyclic', name, nontrivial=True)
        want = [id(x) for x in ref_visit(root)]
        try:
            got = with_timeout(lambda: [id(x) for x in g.visit(root)], 30.0)
        except Timeout:
            got = 'does not terminate (30 s)'
        except Exception as e:                  # noqa
            got = 'exception ' + type(e).__name__
        if got != want:
            R.counterexample('cyclic', 'visit-on-cyclic-container', {'structure': name}, f'{len(want)} objects, each once, in order', got if isinstance(got, str) else f'{len(got)} objects: wrong order or repeated')
        try:
            ne = with_timeout(lambda: sum(1 for _ in g.traverse(root)), 30.0)
        except Timeout:
            R.counterexample('cyclic', 'traverse-on-cyclic-container', {'structure': name}, 'terminates', 'does not terminate (30 s)')

    class CountingList(list):
        expansions = 0

        def __reversed__(self):
            CountingList.expansions += 1
            return list.__reversed__(self)

        def __iter__(self):
            CountingList.expansions += 1
            return list.__iter__(self)
    for depth in (4, 10, 16):
        dag = CountingList([g.B('leaf')])
        nlists = 1
        for _ in range(depth):
            dag = CountingList([dag, dag])
            nlists += 1
        R.count('shared-dag', depth, nontrivial=True)
        CountingList.expansions = 0
        try:
            nobj = with_timeout(lambda: sum(1 for _ in g.visit(dag)), 30.0)
        except Timeout:
            nobj = 'timeout'
        if nobj != 1 or CountingList.expansions > nlists:
            R.counterexample('shared-dag', 'shared-container-expanded-again', {'depth': depth, 'distinct_lists': nlists},
                             f'1 object, at most {nlists} expansions (each list once)', {'objects': nobj, 'expansions': CountingList.expansions})
    # dicts with several object-bearing values: siblings left to right, and the same order as traverse enters them
    for k in range(2, 6):
        objs = [g.A(g.B(i), [g.B(10 + i)]) for i in range(k)]
        root = g.A({f'k{i}': o for i, o in enumerate(objs)}, None)
        R.count('dict-order', k, nontrivial=True)
        got = [id(x) for x in g.visit(root)]
        want = [id(x) for x in ref_visit(root)]
        entered = [id(t.child) for t in g.traverse(root) if not t.is_finished and trees.is_obj(t.child)]
        if got != want or got != entered:
            R.counterexample('dict-order', 'dict-values-order', {'values': k}, 'dict values left to right, as traverse enters them', 'different order')
    # depth beyond the recursion limit: the Python stack is not in the model; run the implementation
    import sys
    depths = [2000, 20000] if R.tier == 'quick' else [2000, 20000, 100000]
    for d in depths:
        t = g.B(0)
        for i in range(d):
            t = g.B([t]) if i % 2 else g.B((t,))
        R.count('deep', d)
        try:
            nv = sum(1 for _ in g.visit(t))
            ne = sum(1 for _ in g.traverse(t))
            if nv != d + 1 or ne != 2 * (2 * d + 2):
                R.counterexample('deep', 'deep-tree-count', {'depth': d}, [d + 1, 2 * (2 * d + 2)], [nv, ne])
        except RecursionError:
            R.counterexample('deep', 'recursion-limit', {'depth': d, 'recursion_limit': sys.getrecursionlimit()},
                             'no RecursionError', 'RecursionError')
    R.assumptions += ['identity of a node = CPython id(); the numbering is by first visit of the exporter',
                      'absence of RecursionError is observed on the implementation only (the Python stack is not modelled)']
    return R.finish(
        rule='random trees of parsed objects, lists, tuples, dicts and scalar leaves (depth <= 4, arity <= 3) with shared '
             'sub-objects/containers and with equal leaves that are / are not the same Python object, plus fixed cases; '
             'list(visit(t)) by identity and list(traverse(t)) as (parent, field index, child, finished) events; chains of depth '
             'up to 10^5 on the implementation; non-trivial = more than two nodes',
        checker_cmd='cd /verif/coq && make -f Makefile.coq && coqc -R . SV Props/C15.v')


def split2(o):
    """'(A B)' where A and B are parenthesised lists -> (A, B)"""
    inner = o[1:-1]
    depth = 0
    for i, ch in enumerate(inner):
        if ch == '(':
            depth += 1
        elif ch == ')':
            depth -= 1
            if depth == 0:
                return inner[:i + 1], inner[i + 2:]
    return inner, ''
