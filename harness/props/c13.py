"""C13 — inheritance: overrides are late-bound, super is the parent, parent untouched."""
import itertools
import random
import sys

from .. import core
from .c11 import canon, outcome

# a 3-rule base; every rule body refers to the others so that late binding is observable
BASE_RULES = {
    'start': 'W+',
    'W': 'L | D | P(L)',
    'P(x)': '"(" >> x << ")"',
    'L': '/[ab]/',
    'D': '/[01]/',
    'class K': '{ first: L; rest: W* }',
}
ALT = {     # alternative definitions used by derived grammars
    'W': ['"<" >> L << ">"', 'D | L', '[L, D]', '("!" >> super.W) | D', 'P(D) | L', 'P(x=L) | P(D)'],
    'P(x)': ['"[" >> x << "]"', '"(" >> (x // ",") << ")"', '"<" >> super.P(x) << ">"', 'super.P(x) | ("!" >> x)'],
    'L': ['/[xy]/', '"l"', '("~" >> super.L) | "z"'],
    'D': ['/[78]/', '"d" >> L'],
    'start': ['W', '[W, W]', '(W // ",")'],
}
NEW = {'N1': '[L, D]', 'N2': 'W >> W', 'N3': 'Opt(L)'}
TEXTS = None


def texts():
    global TEXTS
    if TEXTS is None:
        alpha = 'a0x7<>!~l ,'
        out = ['']
        for n in range(1, 4):
            out += [''.join(p) for p in itertools.product('a0x7!<', repeat=n)]
        out += ['<a>', '<x>', '!a', '!!a', '~a', 'a,0', 'a 0', ' a', 'l', 'z', 'da', '~~a', '!<a>', 'a0a0', '<a><x>', 'a,x,7', ' a b', 'a b ', 'a  0',
                '(a)', '(x)', '(0)', '(7)', '[a]', '[x]', '[0]', '(l)', '(z)', '(a,a)', '(x,x)', '(a)(x)', '( a )', '(a', 'a,(a)', '(a),0', 'a;0', 'a;b', 'a,0;a', 'a ;0', ';a', 'a;', 'a,;0', '<(a)>', '<(x)>', '<<(a)>>', '!a', '<(0)>', '<[a]>']
        TEXTS = out
    return TEXTS


class Level:
    def __init__(self, name, rules, ignore=None, parent=None, ignore_first=False):
        self.name, self.rules, self.ignore, self.parent, self.ignore_first = name, rules, ignore, parent, ignore_first

    def describe(self, uid):
        sep = '.' if getattr(self, 'dotted', False) else '_'
        head = f'grammar c13_{uid}{sep}{self.name}' + (f' extends c13_{uid}{sep}{self.parent.name}' if self.parent else '') + '\n'
        lines = []
        inherited = set()
        p = self.parent
        while p:
            inherited |= set(p.rules)
            p = p.parent
        for n, body in self.rules.items():
            if n.startswith('class '):
                lines.append(f'{n} {body}')
            else:
                lines.append(('override ' if n in inherited else '') + f'{n} = {body}')
        if self.ignore:
            if self.ignore_first:
                lines.insert(0, self.ignore)
            else:
                lines.append(self.ignore)
        return head + '\n'.join(lines) + '\n'

    def chain(self):
        return (self.parent.chain() if self.parent else []) + [self]


def flatten(level):
    """the specification: one grammar without inheritance.  A rule R defined at level k is copied as R@k when a
    `super.R` somewhere above refers to it; references are late-bound (resolved in the most derived grammar)."""
    chain = level.chain()
    rules = {}
    # copies for super references: (rule, level index of the definition that super denotes)
    def define(name, idx, body):
        # super.X inside a definition at level idx denotes the nearest definition of X below idx
        def repl_super(b):
            import re

            def sub(m):
                x = m.group(1)
                for j in range(idx - 1, -1, -1):
                    key = x if x in chain[j].rules else next((k for k in chain[j].rules if k.startswith(x + '(')), None)
                    if key is not None:
                        copy = f'{x}__at{j}'
                        ckey = copy + key[len(x):]          # keeps the parameter list
                        if ckey not in rules:
                            rules[ckey] = None
                            define(ckey, j, chain[j].rules[key])
                        return copy
                return 'Fail()'
            return re.sub(r'super\.(\w+)', sub, b)
        rules[name] = repl_super(body)
    final = {}
    for idx, lv in enumerate(chain):
        for n in lv.rules:
            final[n] = idx
    for n, idx in final.items():
        define(n, idx, chain[idx].rules[n])
    igns = [lv.ignore for lv in chain if lv.ignore]
    order = ['start'] + [n for n in rules if n != 'start']
    desc = '\n'.join((f'{n} {rules[n]}' if n.startswith('class ') else f'{n} = {rules[n]}') for n in order) + '\n' + '\n'.join(igns) + '\n'
    return desc


def gen_levels(rnd, depth, with_ignore):
    base_ign = rnd.choice([None, 'ignore " "', 'ignore Sp = " "']) if with_ignore else None
    first = rnd.random() < 0.5
    lv = Level('a', dict(BASE_RULES), base_ign, ignore_first=first)
    levels = [lv]
    for d in range(1, depth):
        rules = {}
        for n in rnd.sample(list(ALT), rnd.randrange(0, 3)):
            body = rnd.choice(ALT[n])
            rules[n] = body
        for n in rnd.sample(list(NEW), rnd.randrange(0, 2)):
            rules[n + chr(96 + d)] = NEW[n]
        if not rules:
            rules['N9' + chr(96 + d)] = 'W'
        ign = None
        if with_ignore and base_ign and rnd.random() < 0.5:
            ch = ',;'[d - 1] if d <= 2 else ','              # every level ignores something of its own
            ign = rnd.choice([f'ignore "{ch}"', f'ignore "{ch}"', f'ignore Cm{d} = "{ch}"'])
        lv = Level('abc'[d], rules, ign, lv, ignore_first=first)
        levels.append(lv)
    return levels


def run(R):
    R.build()
    R.prove('Props/C13.v')
    rnd = random.Random(R.seed)
    sys.path.insert(0, core.REPO)
    from sourcer import Grammar
    from ..impl import with_timeout, Timeout
    TX = texts()
    n = 120 if R.tier == 'quick' else 2500

    def outcome2(g, entry, t):
        f = g.parse if entry is None else getattr(g, entry).parse
        try:
            return 'return ' + canon(f(t))
        except g.PartialParseError as e:
            return 'partial %s at %r' % (canon(e.partial_result), tuple(e.last_position))
        except g.ParseError as e:
            return 'error at %r' % (tuple(e.position),)
        except RecursionError:
            return 'RecursionError'
        except Timeout:
            raise
        except Exception as e:                  # noqa
            return 'exception ' + type(e).__name__

    def safe_outcome(g, t, entry=None):
        try:
            return with_timeout(lambda: outcome2(g, entry, t), 2.0)
        except Timeout:
            pass
        except RecursionError:
            return 'RecursionError'
        # two seconds for a parse of a few characters: a loop, or a machine under load - look again, generously
        try:
            return with_timeout(lambda: outcome2(g, entry, t), 30.0)
        except Timeout:
            return 'timeout'
        except RecursionError:
            return 'RecursionError'
    # every entry point of the PARENT module (module-level parse, rules, the class) is observed before and after the
    # derived modules are compiled and used
    ENTRIES0 = [None, 'W', 'L', 'D', 'K']
    TXE0 = TX[:40] + ['x', 'xa', 'ax', '(x)', '<a>', 'l', 'a0']
    # overrides that can fail after consuming input where the parent's definition could not: a rule that is a single
    # token in the parent (so a reference to it needs no checkpoint THERE) is referenced by the parent's rules in every
    # position that has to back up; the child's definition starts to match and then fails
    special = []
    CTX = ['Item*', 'Item+', 'Item{1,2}', 'Item | Other', 'Opt(Item)', '(Item // ",")', 'Item between { left: "+" }', '[Item, "!"] | Other',
           'Longest(Item, Other)', '[Opt(Item), Other?]', 'Skip(Item)', '(Item | Other){2}', 'Expect(Item | Other) >> Other', '(Item // Other) | Other']
    OVR = ['"<" >> /[a-z]+/ << ">"', '["<", super.Item]', '"<"+ >> ";"', '("<" >> super.Item) | ("<<" >> "!")']
    for ci, ctx in enumerate(CTX):
        for oi, ovr in enumerate(OVR):
            base = Level('a', {'start': '[Body, /.*/]', 'Body': ctx, 'Item': '/[a-z]+;/', 'Other': '/[<a-z]+[!;]?/'})
            three = (ci + oi) % 3
            if three == 0:
                chain_ = [base, Level('b', {'Item': ovr}, parent=base)]
            elif three == 1:
                mid = Level('b', {'Nb': 'Item'}, parent=base)
                chain_ = [base, mid, Level('c', {'Item': ovr}, parent=mid)]
            else:
                mid = Level('b', {'Item': ovr}, parent=base)
                chain_ = [base, mid, Level('c', {'Other': '/[<a-z]+[!;>]?/'}, parent=mid)]
            special.append(chain_)
    if R.tier == 'quick':
        special = special[::2] if R.seed % 2 else special[1::2] + special[:8]
    # a rule of the parent nested so deeply that the generator moves part of it into helper functions: the references and
    # literals in there are late-bound like everywhere else (the child's override, the child's ignore patterns)
    def nest(k, inner):
        e = inner
        for _ in range(k):
            e = '("<" >> (' + e + ')* << ">")'
        return e
    deep_special = []
    for k in (3, 6, 8, 11):
        base = Level('a', {'start': 'Deep', 'Deep': nest(k, 'Item | "-"'), 'Item': '/[a-z]/'})
        deep_special.append(([base, Level('b', {'Item': '/[0-9]/ | "!"'}, parent=base)], k))
        base = Level('a', {'start': 'Deep', 'Deep': nest(k, 'Item | "-"'), 'Item': '/[a-z]/'})
        mid = Level('b', {'Nb': 'Item'}, parent=base)
        deep_special.append(([base, mid, Level('c', {'Item': '"<" >> super.Item << ">" | /[0-9]/'}, parent=mid)], k))
        base = Level('a', {'start': 'Deep', 'Deep': nest(k, 'Item | "-"'), 'Item': '/[a-z]/'}, ignore='ignore " "')
        deep_special.append(([base, Level('b', {'Item': '/[0-9]/'}, 'ignore ","', parent=base)], k))
    TXD = {}
    for k in (3, 6, 8, 11):
        o, c = '<' * k, '>' * k
        TXD[k] = [o + c, o + 'a' + c, o + '1' + c, o + '-' + c, o + 'a1' + c, o + '!' + c, o + '<1>' + c, o + ' 1 , 2' + c, o + '1,-' + c, o + 'a' + c[:-1],
                  o[:-1] + '1' + c[:-1], o + '1' + c + 'x', '', o + ', 1' + c, '<' * (k - 1) + '<1><2>' + '>' * (k - 1)]
    special = special + [ch for ch, _ in deep_special]
    deep_depth = {id(ch): k for ch, k in deep_special}
    TXM = ['', '<ab><cd', '<ab', '<ab>', '<ab;', '<<;', '<', 'ab;', 'ab;cd;', '<ab>,<cd', '<ab>+<cd', '<ab>!', '<ab;<', '<<!', '<<', '<ab>,<cd>', '<ab>+<cd>',
           '<ab><cd>', 'ab', '<ab!', '<;', '<<;<', '<ab;,<cd', '<ab;+<cd', '<ab;!', 'ab;<', '<ab;<cd;', '<ab;<cd']
    for uid in range(n + len(special)):
        if uid < n:
            depth = rnd.choice([2, 2, 3, 3])
            levels = gen_levels(rnd, depth, with_ignore=rnd.random() < 0.5)
            ENTRIES, TXE, TXU = ENTRIES0, TXE0, TX
        else:
            levels = special[uid - n]
            depth = len(levels)
            if id(levels) in deep_depth:
                ENTRIES, TXE, TXU = [None, 'Deep', 'Item'], TXD[deep_depth[id(levels)]], TXD[deep_depth[id(levels)]]
            else:
                ENTRIES, TXE, TXU = [None, 'Body', 'Item', 'Other'], TXM, TXM
        if uid % 7 == 3:
            for lv in levels:
                lv.dotted = True             # qualified grammar names (packages)
        order = list(range(depth))
        mods, errs = [], None
        before = None
        try:
            for i, lv in enumerate(levels):
                g = Grammar(lv.describe(uid))
                mods.append(g)
                if i == 0:
                    before = [safe_outcome(g, t, en) for en in ENTRIES for t in TXE]
        except Exception as e:                  # noqa
            errs = f'{type(e).__name__}: {e}'
        case = {'chain': [lv.describe(uid) for lv in levels]}
        R.count('chains', uid, nontrivial=True)
        if errs:
            R.counterexample('chains', 'derived-grammar-rejected:' + errs.split(':')[0], case, 'grammar modules', errs[:200])
            continue
        # any order of using the modules: derived first or base first
        use_order = list(range(depth))
        rnd.shuffle(use_order)
        for k in use_order:
            lv, g = levels[k], mods[k]
            try:
                flat = Grammar(flatten(lv))
            except Exception as e:              # noqa
                R.counterexample('chains', 'flattened-grammar-rejected', dict(case, flat=flatten(lv)), 'harness error?', str(e)[:200])
                break
            bad = None
            nto = 0
            for t in TXU:
                if nto >= 3:
                    break
                got, want = safe_outcome(g, t), safe_outcome(flat, t)
                if got == 'timeout':
                    nto += 1
                R.count('flatten', (uid, k, t), nontrivial=True)
                if strip_names(got) != strip_names(want):
                    bad = (t, want, got)
                    break
            if bad:
                mech = 'differs-from-flattened-grammar'
                if bad[2].startswith('exception') or bad[2] in ('timeout', 'RecursionError'):
                    mech = 'through-derived:' + bad[2].replace('exception ', '')
                R.counterexample('flatten', mech, dict(case, level=lv.name, flattened=flatten(lv), text=bad[0]), bad[1], bad[2])
            else:
                R.traces += 1
        # parent untouched by creating and using the derived modules
        after = [safe_outcome(mods[0], t, en) for en in ENTRIES for t in TXE]
        R.count('parent-untouched', uid, nontrivial=True)
        if after != before:
            i = next(i for i, (a, b) in enumerate(zip(before, after)) if a != b)
            R.counterexample('parent-untouched', 'parent-behaviour-changed',
                             dict(case, entry=ENTRIES[i // len(TXE)] or 'parse', text=TXE[i % len(TXE)]), before[i], after[i])
        # inherited entry points: B.R.parse for an inherited rule R uses B's definitions of what R refers to
        if depth >= 2:
            lv, g = levels[-1], mods[-1]
            flat = Grammar(flatten(lv))
            own = set(lv.rules)
            for rname in [e for e in ENTRIES if e]:
                if rname in own:
                    continue
                for t in TXU[:60]:
                    got, want = safe_outcome(g, t, rname), safe_outcome(flat, t, rname)
                    R.count('inherited-entry', (uid, rname, t), nontrivial=True)
                    if strip_names(got) != strip_names(want):
                        R.counterexample('inherited-entry', 'inherited-class-entry-point-uses-parent-context' if rname == 'K' else
                                         'inherited-entry-point-uses-parent-context', dict(case, rule=rname, text=t), want, got)
                        break
    # a NAMED ignore rule of the parent overridden by the child (wider, narrower, with and without the keyword ignore): the
    # skipping between the parent's tokens follows the child's definition, at every level below
    OVA = 'grammar c13ov{k}_a\nignore Sp = /[ \\t]+/\nstart = W+\nW = /[a-z]+/\nPair = [W, ":", W]\n'
    OVT = ['ab cd\nef', 'ab\tcd ef', 'ab cd', ' ab', 'ab:cd', 'ab :\ncd', 'ab\t: cd', 'ab_cd', 'ab _ cd', '']
    for k, (ovr, flat_sp) in enumerate([('override Sp = /[ \\t\\n]+/', '/[ \\t\\n]+/'), ('override ignore Sp = /[ ]+/', '/[ ]+/'), ('override Sp = "_" | " "', '"_" | " "')]):
        try:
            Grammar(OVA.format(k=k))
            gb = Grammar(f'grammar c13ov{k}_b extends c13ov{k}_a\n{ovr}\n')
            gc = Grammar(f'grammar c13ov{k}_c extends c13ov{k}_b\nExtra = W\n')
            gf = Grammar(f'ignore Sp = {flat_sp}\nstart = W+\nW = /[a-z]+/\nPair = [W, ":", W]\nExtra = W\n')
        except Exception as e:                  # noqa
            R.counterexample('ignore-override', 'derived-grammar-rejected:' + type(e).__name__, {'override': ovr}, 'grammar modules', str(e)[:150])
            continue
        for gname, gd in (('child', gb), ('grandchild', gc)):
            for en in (None, 'Pair', 'start'):
                for t in OVT:
                    R.count('ignore-override', (k, gname, en, t), nontrivial=True)
                    got, want = safe_outcome(gd, t, en), safe_outcome(gf, t, en)
                    if got != want:
                        R.counterexample('ignore-override', 'differs-from-flattened-grammar', {'parent': OVA.format(k=k), 'override': ovr, 'through': gname,
                                         'entry': en or 'parse', 'text': t}, want, got)
                        break
    R.samples.append({'chain': case['chain'], 'flattened': flatten(levels[-1])})
    R.assumptions += ['importlib / sys.modules plumbing and the re-parsing of the parent\'s __doc__ are exercised, not modelled',
                      'ignore declarations only in the derived grammar (parent has none) are outside the property and not generated']
    return R.finish(
        rule='chains of 2-3 named grammars over a 4-rule base: every mix of overridden / inherited / new rules, super references at '
             'every level, ignore declarations (anonymous or named) in base and/or derived; each level compared, on ~250 inputs, with the '
             'FLATTENED grammar (rules of the most derived definition, super.R = a copy of the parent\'s definition with late-bound '
             'references); modules used in random order; parent behaviour before/after; inherited entry points; chains in which a rule that is one token in the parent, referenced there under every backing-up construct, is overridden by a definition that can fail after consuming',
        checker_cmd='cd /verif/coq && make -f Makefile.coq && coqc -R . SV Props/C13.v')


def strip_names(s):
    return s
