"""CLI: ./check C09 --tier quick|thorough [--replay f]"""
import argparse
import importlib
import json
import os
import sys
import traceback

from . import core


def main():
    import faulthandler, signal
    faulthandler.register(signal.SIGUSR1, all_threads=True)     # `kill -USR1 <pid>` prints where the check is
    ap = argparse.ArgumentParser()
    ap.add_argument('pid')
    ap.add_argument('--tier', default=os.environ.get('VERIF_TIER', 'quick'))
    ap.add_argument('--replay')
    a = ap.parse_args()
    seed = int(os.environ.get('VERIF_SEED', '1'))
    pid = a.pid.upper()
    mod = importlib.import_module(f'harness.props.{pid.lower()}')
    if a.replay:
        sys.exit(mod.replay(json.load(open(a.replay))) if hasattr(mod, 'replay') else 2)
    R = core.Run(pid, a.tier, seed)
    try:
        rc = mod.run(R)
    except Exception:
        tb = traceback.format_exc()
        R.broken.append({'kind': 'harness-error', 'name': 'check crashed', 'detail': tb[-1500:]})
        print(tb, file=sys.stderr)
        rc = R.finish(rule='check crashed before completion', checker_cmd='n/a')
    sys.exit(rc)


if __name__ == '__main__':
    main()
