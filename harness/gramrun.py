"""Grammar-level differential runs: implementation (in worker processes) vs the
extracted model and specification (ocaml/driver)."""
import multiprocessing as mp
import os
import re
import time

from . import core

FUEL = 150
MAX_TIMEOUTS_PER_GRAMMAR = 4
RECHECK_BUDGET = 100.0      # seconds per check run spent on repeating timed-out observations
_recheck_spent = [0.0]
DROPPED = {'timeouts_not_rechecked': 0, 'grammars_cut_short': 0, 'constructions_not_rechecked': 0}


def _worker(batch, slow=False):
    from . import impl
    from .export import ExportError
    out = []
    for job in batch:
        gid, desc, texts, opts = job
        rec = {'gid': gid, 'desc': desc, 'cases': []}
        try:
            g, ex = impl.build(desc, slow=slow)
        except impl.Timeout:
            rec['grammar_error'] = 'timeout'
            out.append(rec)
            continue
        except ExportError as e:
            # the tie is broken; try a lenient export so that the search for a failing input can still run
            try:
                g, ex = impl.build(desc, slow=slow, lenient=True)
                rec['export_error'] = 'export:' + str(e)[:80]
            except Exception:                   # noqa
                rec['grammar_error'] = 'export:' + str(e)[:80]
                out.append(rec)
                continue
        except Exception as e:                  # noqa
            rec['grammar_error'] = 'exception:' + type(e).__name__ + ':' + str(e)[:80]
            out.append(rec)
            continue
        rec['ex'] = {k: ex[k] for k in ('rules', 'funs', 'flags', 'ignored', 'rule_names', 'classes')}
        rec['named'] = hasattr(g, '_ctx')
        if 'fuel' in opts:
            rec['fuel'] = opts['fuel']
        entries = opts.get('entries')
        if entries is None:
            low = [n.lower() for n in ex['rule_names']]
            entries = [low.index('start')] if 'start' in low else [0]
        elif entries == 'all':
            entries = [i for i, n in enumerate(ex['rule_names']) if not n.startswith('_')
                       and not ex['rules'][i][0]]
        bytes_mode = opts.get('bytes', False)
        # a grammar that keeps running out of time (a loop in the generated parser, or a legitimately divergent
        # grammar) is not run on all its inputs: each such observation costs seconds
        nto = 0
        for text in texts:
            if nto >= MAX_TIMEOUTS_PER_GRAMMAR:
                rec['cut_short'] = True
                break
            t = text.encode('latin-1') if bytes_mode else text
            rxt = impl.rx_table(ex, t)
            for entry in entries:
                for pos in opts.get('positions', [0]):
                    if pos > len(t):
                        continue
                    for full in opts.get('fulls', [True]):
                        x = impl.observe_raw(g, ex, entry, t, pos)
                        p = impl.observe_parse(g, ex, entry, t, pos, full,
                                               module_level=opts.get('module_level', False))
                        if x == 'timeout' or p == 'timeout':
                            nto += 1
                        rec['cases'].append((text, rxt, entry, pos, full, x, p))
        out.append(rec)
    return out


def request_line(rec, lf=True):
    ex = rec['ex']
    cases = [[core.codes(t.encode('latin-1') if False else t), rxt, entry, pos, full]
             for (t, rxt, entry, pos, full, _, _) in rec['cases']]
    return core.sx(['runs', lf, rec['named'], ex['ignored'], ex['rules'], ex['funs'], rec.get('fuel', FUEL), cases])


def _recheck_timeouts(recs, jobs):
    """a 'timeout' observed by a worker may be machine load: repeat those observations here, generously"""
    from . import impl
    byid = {j[0]: j for j in jobs}
    t_in = time.time()
    deadline = t_in + max(0.0, RECHECK_BUDGET - _recheck_spent[0])
    for k, r in enumerate(recs):
        if r.get('cut_short'):
            DROPPED['grammars_cut_short'] += 1
        if r.get('grammar_error') == 'timeout':
            if time.time() < deadline:
                fresh = _worker([byid[r['gid']]], slow=True)[0]
                if fresh.get('grammar_error') == 'timeout':
                    fresh['grammar_error'] = 'timeout:confirmed (Grammar() did not return within 120 s, alone in the parent process)'
                recs[k] = fresh
                r = fresh
            else:
                # a construction that timed out in a worker and could not be repeated within the budget is machine load
                # until shown otherwise: it is not an observation (counted in the evidence, never reported)
                r['grammar_error'] = 'unconfirmed-timeout'
                DROPPED['constructions_not_rechecked'] += 1
        if 'ex' not in r:
            continue
        if any(c[5] == 'timeout' or c[6] == 'timeout' for c in r['cases']):
            if time.time() >= deadline:
                # out of budget: these observations are not confirmed, so they are not compared at all (the ones
                # repeated before the budget ran out are)
                keep = [c for c in r['cases'] if c[5] != 'timeout' and c[6] != 'timeout']
                DROPPED['timeouts_not_rechecked'] += len(r['cases']) - len(keep)
                r['cases'] = keep
                continue
            opts = byid[r['gid']][3]
            try:
                g, ex = impl.build(r['desc'], slow=True)
            except Exception:                   # noqa
                continue
            for i, c in enumerate(r['cases']):
                text, rxt, entry, pos, full, x, p = c
                t = text.encode('latin-1') if opts.get('bytes') else text
                if x == 'timeout':
                    x = impl.observe_raw(g, ex, entry, t, pos, timeout=1.5, retry=False)
                if p == 'timeout':
                    p = impl.observe_parse(g, ex, entry, t, pos, full, timeout=1.5, retry=False,
                                           module_level=opts.get('module_level', False))
                r['cases'][i] = (text, rxt, entry, pos, full, x, p)
    _recheck_spent[0] += time.time() - t_in
    return recs


def run_grammars(jobs, procs=None, chunk=40):
    """jobs: list of (gid, desc, texts, opts) -> list of records with model results attached:
       rec['model'] = list of (mx, ms, mp, mq) aligned with rec['cases']"""
    procs = procs or core.NCPU
    batches = [jobs[i:i + chunk] for i in range(0, len(jobs), chunk)]
    recs = []
    if len(batches) <= 1 or procs == 1:
        for b in batches:
            recs += _worker(b)
    else:
        ctx = mp.get_context('fork')
        with ctx.Pool(procs, maxtasksperchild=20) as pool:
            for out in pool.imap(_worker, batches):
                recs += out
    recs = _recheck_timeouts(recs, jobs)
    live = [r for r in recs if 'ex' in r and r['cases']]
    lines = [request_line(r) for r in live]
    outs = core.run_driver(lines, raw=True)
    for r, o in zip(live, outs):
        if o.startswith('(error'):
            r['model_error'] = o
            r['model'] = None
            continue
        parts = o.split('|')
        r['model'] = [tuple(x.split('\t')) for x in parts]
        if len(r['model']) != len(r['cases']):
            r['model_error'] = 'case count mismatch'
            r['model'] = None
    return recs


def flags_lines(recs, lf=True):
    """compare the exported flag values with the model's Flags at every node.
       -> list of (rec, rule index, python flags, model flags) that differ"""
    reqs, meta = [], []
    for r in recs:
        if 'ex' not in r:
            continue
        for i, (rule, fl) in enumerate(zip(r['ex']['rules'], r['ex']['flags'])):
            reqs.append(core.sx(['flags', lf, rule[1]]))
            meta.append((r, i, fl))
    outs = core.run_driver(reqs, raw=True)
    bad = []
    for (r, i, fl), o in zip(meta, outs):
        want = '(' + ' '.join(('true' if a else 'false') + ' ' + ('true' if b else 'false') for a, b in fl) + ')'
        if o != want:
            bad.append((r, i, want, o))
    return bad, len(reqs)


def classify(ix, mx):
    """implementation raw observation vs model: 'agree' | 'diverge-both' | 'crash-both' | 'differ'"""
    if ix == mx:
        return 'agree'
    if ix == 'timeout' and mx == 'fuel':
        return 'diverge-both'
    if ix.startswith('(exc') and mx.startswith('(stuck'):
        return 'crash-both'
    return 'differ'


def classify_parse(ip, mp):
    if ip == mp:
        return 'agree'
    if ip == 'timeout' and mp == 'fuel':
        return 'diverge-both'
    if ip.startswith('(exc') and mp.startswith('(crash'):
        return 'crash-both'
    if ip.startswith('(perr') and mp.startswith('(perr'):
        return 'agree' if ip == mp else 'differ'
    return 'differ'


def spec_verdict(ix, ms):
    """implementation vs SPEC (peg): 'ok' | 'noclaim' | 'violation'"""
    if ms in ('raise', 'fuel'):
        return 'noclaim'
    if ms == 'fails':
        return 'ok' if ix.startswith('(done false') else 'violation'
    # (match V P)
    want = '(done true ' + ms[len('(match '):]
    return 'ok' if ix == want else 'violation'


_SPAN = re.compile(r'\((-?\d+) (\S+) (\S+)\) \((-?\d+) (\S+) (\S+)\)\)')


def _zw(m):
    # the span of an instance that consumed nothing is outside the property (C10): wildcard
    if int(m.group(4)) < int(m.group(1)):
        return 'ZW ZW)'
    return m.group(0)


def spec_parse_verdict(ip, mq):
    if mq in ('raise', 'fuel'):
        return 'noclaim'
    if mq == 'perr':
        return 'ok' if ip.startswith('(perr') else 'violation'
    if ip == mq:
        return 'ok'
    return 'ok' if _SPAN.sub(_zw, ip) == _SPAN.sub(_zw, mq) else 'violation'


def compare_flags(R, recs, limit=20):
    """always_succeeds()/can_partially_succeed() of every exported node vs the model's Flags"""
    bad, nflags = flags_lines(recs)
    st = R.stream('flags')
    st['cases'] += nflags
    for (r, idx, want, got) in bad[:limit]:
        R.disagree('flags', {'grammar': r['desc'], 'rule': r['ex']['rule_names'][idx]},
                   'python flags ' + want, 'model flags ' + got)
    st['model_vs_impl_disagreements'] += max(0, len(bad) - limit)
    return len(bad)


def compare(R, recs, stream, mechanism_of=None, check_parse=True, sample_every=997, explain_rec=None, reject_is_violation=False):
    """feed a batch of records into the Run: correspondence + spec check"""
    hist = R.extra.setdefault('outcomes', {}).setdefault(stream, {})

    def bump(k):
        hist[k] = hist.get(k, 0) + 1
    n = 0
    for r in recs:
        if r.get('grammar_error') == 'unconfirmed-timeout':
            bump('grammar:unconfirmed-timeout')
            continue
        if 'grammar_error' in r:
            bump('grammar:' + r['grammar_error'].split(':')[0] + ':' + r['grammar_error'].split(':')[1][:20]
                 if ':' in r['grammar_error'] else 'grammar:' + r['grammar_error'])
            if r['grammar_error'].startswith('exception:') and not r.get('may_reject') and reject_is_violation:
                R.count(stream, (r['desc'], 'construct'), False)
                R.counterexample(stream, 'generated-grammar-rejected:' + r['grammar_error'].split(':')[1], {'grammar': r['desc']},
                                 'a grammar module (the generators only produce well-formed grammars)', r['grammar_error'])
            if r['grammar_error'].startswith('export:'):
                # sourcer built something the exporter does not know (a new class or attribute): the model cannot be
                # tied to this grammar, so the correspondence is broken, not skipped
                R.count(stream, (r['desc'], 'export'), False)
                R.disagree(stream, {'grammar': r['desc']}, r['grammar_error'], 'an expression tree the exporter can translate')
            continue
        if 'export_error' in r:
            R.count(stream, (r['desc'], 'export'), False)
            R.disagree(stream, {'grammar': r['desc']}, r['export_error'], 'an expression tree the exporter can translate')
        if r.get('model') is None:
            if r.get('cases'):
                R.disagree(stream, {'grammar': r['desc']}, 'n/a', r.get('model_error', 'no model output'))
            continue
        for (text, rxt, entry, pos, full, ix, ip), (mx, ms, mp, mq) in zip(r['cases'], r['model']):
            n += 1
            case = {'grammar': r['desc'], 'text': text, 'entry': r['ex']['rule_names'][entry], 'pos': pos, 'fullparse': full}
            c = classify(ix, mx)
            nontrivial = c == 'agree' and not ix.startswith('(done false 0)')
            R.count(stream, (r['desc'], text, entry, pos, full), nontrivial)
            bump('raw:' + (ix.split(' ')[0] + (' ' + ix.split(' ')[1] if ix.startswith('(done') else '')) + ':' + c)
            v = spec_verdict(ix, ms)
            case['model_agrees'] = (c != 'differ')
            mech = None
            if v == 'violation':
                mech = mechanism_of(r, case, ix, ms) if mechanism_of else 'peg-semantics'
            if c == 'differ':
                R.disagree(stream, case, ix, mx, explained_by=mech or (explain_rec(r) if explain_rec else None))
            else:
                R.traces += 1
            bump('spec:' + v)
            if v == 'violation':
                R.counterexample(stream, mech, case, ms, ix)
            if check_parse:
                c2 = classify_parse(ip, mp)
                v2 = spec_parse_verdict(ip, mq)
                mech2 = None
                if v2 == 'violation':
                    mech2 = mech if v == 'violation' else (mechanism_of(r, case, ip, mq) if mechanism_of else 'parse-outcome')
                if c2 == 'differ':
                    R.disagree(stream + ':parse', case, ip, mp, explained_by=mech2 or (explain_rec(r) if explain_rec else None))
                if v2 == 'violation' and v != 'violation':
                    R.counterexample(stream + ':parse', mech2, case, mq, ip)
            if n % sample_every == 1 and len(R.samples) < 10:
                R.samples.append({'case': case, 'implementation': ix, 'model': mx, 'spec': ms})
    compare_flags(R, recs)
    return n
