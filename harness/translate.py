"""Fail-closed Python-`ast` -> Coq translator for small pure fragments of /repo.

Every run regenerates coq/Gen/*.v from the *current* working tree of the
repository.  coq/Tie*.v then proves (inside Coq) that each generated
definition equals its hand-written counterpart in the model, so a change of
meaning in the source breaks a proof obligation.

The translator knows a small closed set of syntactic shapes.  Anything else
raises `Untranslatable`; the caller records "fragment not translated" and the
fragment is then tied by behavioural correspondence only.  It never guesses.
"""
import ast
import os
import sys
from string import Template


class Untranslatable(Exception):
    pass


RENAME = {'end': 'end_', 'text': 't', 'match': 'match_'}


def nm(x):
    return RENAME.get(x, x)


def codes(s):
    return '[' + ';'.join(str(ord(c)) for c in s) + ']'


# --------------------------------------------------------------------------
# expressions over ints and strings (runtime templates)
# --------------------------------------------------------------------------
class ExprTr:
    """ints -> nat, str -> list nat (code points)."""

    def __init__(self, str_names=('text',), funcs=None):
        self.str_names = set(str_names)
        self.funcs = funcs or {}

    def is_str(self, e):
        if isinstance(e, ast.Constant):
            return isinstance(e.value, str)
        if isinstance(e, ast.Name):
            return e.id in self.str_names
        if isinstance(e, ast.Subscript):
            return isinstance(e.slice, ast.Slice)
        if isinstance(e, ast.BinOp) and isinstance(e.op, ast.Add):
            return self.is_str(e.left) or self.is_str(e.right)
        if isinstance(e, ast.BinOp) and isinstance(e.op, ast.Mult):
            return self.is_str(e.left) or self.is_str(e.right)
        if isinstance(e, ast.Call) and isinstance(e.func, ast.Name):
            return self.funcs.get(e.func.id, (None, None))[1] == 'str'
        return False

    def tr(self, e):
        if isinstance(e, ast.Constant):
            if isinstance(e.value, bool) or e.value is None:
                raise Untranslatable(f'constant {e.value!r}')
            if isinstance(e.value, int):
                if e.value < 0 or e.value > 5000:
                    raise Untranslatable(f'int constant {e.value}')
                return str(e.value)
            if isinstance(e.value, str):
                return codes(e.value)
            raise Untranslatable(f'constant {e.value!r}')
        if isinstance(e, ast.Name):
            return nm(e.id)
        if isinstance(e, ast.BinOp):
            a, b = self.tr(e.left), self.tr(e.right)
            if isinstance(e.op, ast.Add):
                if self.is_str(e):
                    if not (self.is_str(e.left) and self.is_str(e.right)):
                        raise Untranslatable('str + non-str')
                    return f'({a} ++ {b})'
                return f'({a} + {b})'
            if isinstance(e.op, ast.Sub):
                if self.is_str(e.left) or self.is_str(e.right):
                    raise Untranslatable('str - ')
                return f'({a} - {b})'
            if isinstance(e.op, ast.Mult):
                # ' ' * n
                if (isinstance(e.left, ast.Constant) and isinstance(e.left.value, str)
                        and len(e.left.value) == 1 and not self.is_str(e.right)):
                    return f'(repeat {ord(e.left.value)} {b})'
                raise Untranslatable('multiplication shape')
            raise Untranslatable(f'operator {type(e.op).__name__}')
        if isinstance(e, ast.Compare):
            if len(e.ops) != 1:
                raise Untranslatable('chained comparison')
            a, b = self.tr(e.left), self.tr(e.comparators[0])
            if self.is_str(e.left) or self.is_str(e.comparators[0]):
                # only single characters are compared (c == '\n')
                r = e.comparators[0]
                if (isinstance(e.ops[0], ast.Eq) and isinstance(r, ast.Constant)
                        and isinstance(r.value, str) and len(r.value) == 1
                        and isinstance(e.left, ast.Name)):
                    return f'(Nat.eqb {a} {ord(r.value)})'
                raise Untranslatable('string comparison')
            op = {ast.Lt: 'Nat.ltb {a} {b}', ast.LtE: 'Nat.leb {a} {b}',
                  ast.Gt: 'Nat.ltb {b} {a}', ast.GtE: 'Nat.leb {b} {a}',
                  ast.Eq: 'Nat.eqb {a} {b}'}.get(type(e.ops[0]))
            if op is None:
                raise Untranslatable(f'comparison {type(e.ops[0]).__name__}')
            return '(' + op.format(a=a, b=b) + ')'
        if isinstance(e, ast.Subscript):
            if not (isinstance(e.value, ast.Name) and e.value.id in self.str_names):
                raise Untranslatable('subscript of non-text')
            s = e.slice
            if not isinstance(s, ast.Slice) or s.step is not None or s.lower is None or s.upper is None:
                raise Untranslatable('slice shape')
            return f'(slice {nm(e.value.id)} {self.tr(s.lower)} {self.tr(s.upper)})'
        if isinstance(e, ast.Call) and isinstance(e.func, ast.Name) and not e.keywords:
            f = e.func.id
            args = [self.tr(x) for x in e.args]
            if f == 'len' and len(args) == 1 and self.is_str(e.args[0]):
                return f'(length {args[0]})'
            if f == 'max' and len(args) == 2:
                return f'(Nat.max {args[0]} {args[1]})'
            if f == 'min' and len(args) == 2:
                return f'(Nat.min {args[0]} {args[1]})'
            if f in self.funcs:
                return f'({self.funcs[f][0]} {" ".join(args)})'
            raise Untranslatable(f'call {f}')
        raise Untranslatable(f'expression {type(e).__name__}')


def _is_newline_search(stmt):
    """match = _compile_re('\\n').search(text, E)  ->  (name, E) or None"""
    if not (isinstance(stmt, ast.Assign) and len(stmt.targets) == 1 and isinstance(stmt.targets[0], ast.Name)):
        return None
    v = stmt.value
    if not (isinstance(v, ast.Call) and isinstance(v.func, ast.Attribute) and v.func.attr == 'search'
            and len(v.args) == 2 and not v.keywords):
        return None
    rx = v.func.value
    if not (isinstance(rx, ast.Call) and isinstance(rx.func, ast.Name) and rx.func.id == '_compile_re'
            and len(rx.args) == 1 and isinstance(rx.args[0], ast.Constant) and rx.args[0].value == '\n'
            and not rx.keywords):
        return None
    if not (isinstance(v.args[0], ast.Name) and v.args[0].id == 'text'):
        return None
    return stmt.targets[0].id, v.args[1]


def _is_end_from_match(stmt, mname):
    """end = len(text) if match is None else match.start()"""
    if not (isinstance(stmt, ast.Assign) and len(stmt.targets) == 1 and isinstance(stmt.targets[0], ast.Name)):
        return None
    v = stmt.value
    if not isinstance(v, ast.IfExp):
        return None
    t = v.test
    ok_test = (isinstance(t, ast.Compare) and isinstance(t.left, ast.Name) and t.left.id == mname
               and len(t.ops) == 1 and isinstance(t.ops[0], ast.Is)
               and isinstance(t.comparators[0], ast.Constant) and t.comparators[0].value is None)
    ok_body = (isinstance(v.body, ast.Call) and isinstance(v.body.func, ast.Name) and v.body.func.id == 'len'
               and len(v.body.args) == 1 and isinstance(v.body.args[0], ast.Name) and v.body.args[0].id == 'text')
    ok_else = (isinstance(v.orelse, ast.Call) and isinstance(v.orelse.func, ast.Attribute)
               and v.orelse.func.attr == 'start' and isinstance(v.orelse.func.value, ast.Name)
               and v.orelse.func.value.id == mname and not v.orelse.args)
    if ok_test and ok_body and ok_else:
        return stmt.targets[0].id
    return None


def tr_block(stmts, et):
    """statement list ending in return (on every path) -> Coq term"""
    if not stmts:
        raise Untranslatable('path without return')
    s, rest = stmts[0], stmts[1:]
    if isinstance(s, ast.Expr) and isinstance(s.value, ast.Constant) and isinstance(s.value.value, str):
        return tr_block(rest, et)          # docstring / comment string
    if isinstance(s, ast.Return):
        if rest:
            raise Untranslatable('code after return')
        return et.tr(s.value)
    srch = _is_newline_search(s)
    if srch is not None:
        mname, start = srch
        if not rest:
            raise Untranslatable('search without use')
        target = _is_end_from_match(rest[0], mname)
        if target is None:
            raise Untranslatable('search idiom')
        return f'(let {nm(target)} := find_nl_from t {et.tr(start)} in\n   {tr_block(rest[1:], et)})'
    if isinstance(s, ast.Assign):
        if len(s.targets) != 1 or not isinstance(s.targets[0], ast.Name):
            raise Untranslatable('assignment shape')
        if et.is_str(s.value):
            et.str_names.add(s.targets[0].id)
        return f'(let {nm(s.targets[0].id)} := {et.tr(s.value)} in\n   {tr_block(rest, et)})'
    if isinstance(s, ast.If):
        body_returns = _always_returns(s.body)
        if s.orelse:
            if rest and not (body_returns and _always_returns(s.orelse)):
                raise Untranslatable('if/else followed by code')
            if rest:
                raise Untranslatable('unreachable code after if/else')
            return f'(if {et.tr(s.test)} then {tr_block(s.body, et)}\n   else {tr_block(s.orelse, et)})'
        if not body_returns:
            raise Untranslatable('if without return')
        return f'(if {et.tr(s.test)} then {tr_block(s.body, et)}\n   else {tr_block(rest, et)})'
    raise Untranslatable(f'statement {type(s).__name__}')


def _always_returns(stmts):
    if not stmts:
        return False
    last = stmts[-1]
    if isinstance(last, ast.Return):
        return True
    if isinstance(last, ast.If) and last.orelse:
        return _always_returns(last.body) and _always_returns(last.orelse)
    return False


# --------------------------------------------------------------------------
# runtime templates
# --------------------------------------------------------------------------
def load_templates(repo):
    """module-level string constants of sourcer/translator.py, $-placeholders substituted"""
    src = open(os.path.join(repo, 'sourcer', 'translator.py')).read()
    tree = ast.parse(src)
    out = {}
    for node in tree.body:
        if (isinstance(node, ast.Assign) and len(node.targets) == 1 and isinstance(node.targets[0], ast.Name)
                and isinstance(node.value, ast.Constant) and isinstance(node.value.value, str)):
            out[node.targets[0].id] = node.value.value
    return out


def runtime_functions(repo):
    tpl = load_templates(repo)
    funcs = {}
    for name in ('_program_setup', '_main_template'):
        if name not in tpl:
            continue
        text = Template(tpl[name]).safe_substitute(CALL='3', ctx='', start='_try_start')
        try:
            mod = ast.parse(text)
        except SyntaxError:
            continue
        for node in ast.walk(mod):
            if isinstance(node, ast.FunctionDef):
                funcs.setdefault(node.name, node)
    return funcs


def gen_excerpt(repo):
    """-> (coq text, {fragment: 'translated' | 'not translated: why'})"""
    fns = runtime_functions(repo)
    status = {}
    parts = ['(* GENERATED on every run by harness/translate.py from sourcer/translator.py — do not edit. *)',
             'From Coq Require Import List Arith Bool.', 'Import ListNotations.',
             'Require Import ExcerptModel.', '']

    # _caret_at
    try:
        f = fns['_caret_at']
        args = [a.arg for a in f.args.args]
        if len(args) != 1:
            raise Untranslatable('arity')
        et = ExprTr(str_names=())
        body = tr_block(f.body, et)
        parts.append(f'Definition gen_caret_at ({nm(args[0])} : nat) : list nat :=\n  {body}.\n')
        status['_caret_at'] = 'translated'
    except (Untranslatable, KeyError) as e:
        status['_caret_at'] = f'not translated: {e}'

    # _extract_excerpt
    try:
        if status['_caret_at'] != 'translated':
            raise Untranslatable('needs _caret_at')
        f = fns['_extract_excerpt']
        args = [a.arg for a in f.args.args]
        if args != ['text', 'pos', 'col']:
            raise Untranslatable('signature')
        body = list(f.body)
        # leading `if isinstance(text, bytes): return repr(<window>)`
        first = body[0]
        is_bytes = (isinstance(first, ast.If) and not first.orelse and isinstance(first.test, ast.Call)
                    and isinstance(first.test.func, ast.Name) and first.test.func.id == 'isinstance'
                    and len(first.test.args) == 2 and isinstance(first.test.args[1], ast.Name)
                    and first.test.args[1].id == 'bytes')
        if not is_bytes:
            raise Untranslatable('bytes branch shape')
        ret = first.body[-1]
        if not (len(first.body) == 1 and isinstance(ret, ast.Return) and isinstance(ret.value, ast.Call)
                and isinstance(ret.value.func, ast.Name) and ret.value.func.id == 'repr'
                and len(ret.value.args) == 1):
            raise Untranslatable('bytes branch body')
        et = ExprTr(str_names=('text',), funcs={'_caret_at': ('gen_caret_at', 'str')})
        parts.append(f'Definition gen_bytes_window (t : list nat) (pos : nat) : list nat :=\n'
                     f'  {et.tr(ret.value.args[0])}.\n')
        et = ExprTr(str_names=('text',), funcs={'_caret_at': ('gen_caret_at', 'str')})
        term = tr_block(body[1:], et)
        parts.append(f'Definition gen_extract_text (t : list nat) (pos col : nat) : list nat :=\n  {term}.\n')
        status['_extract_excerpt'] = 'translated'
    except (Untranslatable, KeyError, IndexError) as e:
        status['_extract_excerpt'] = f'not translated: {e}'

    # _map_index_to_line_and_column
    try:
        parts.append(_gen_lc_map(fns['_map_index_to_line_and_column']))
        status['_map_index_to_line_and_column'] = 'translated'
    except (Untranslatable, KeyError, IndexError) as e:
        status['_map_index_to_line_and_column'] = f'not translated: {e}'
    return '\n'.join(parts) + '\n', status


def _gen_lc_map(f):
    args = [a.arg for a in f.args.args]
    if args != ['text']:
        raise Untranslatable('signature')
    body = [s for s in f.body if not (isinstance(s, ast.Expr) and isinstance(s.value, ast.Constant))]
    lists, counters, loop, ret = [], [], None, None
    for s in body:
        if isinstance(s, ast.Assign) and len(s.targets) == 1 and isinstance(s.targets[0], ast.Name):
            if isinstance(s.value, ast.List) and not s.value.elts:
                lists.append(s.targets[0].id)
                continue
            if isinstance(s.value, ast.Constant) and isinstance(s.value.value, int) and loop is None:
                counters.append((s.targets[0].id, s.value.value))
                continue
        if isinstance(s, ast.For) and loop is None:
            loop = s
            continue
        if isinstance(s, ast.Return) and loop is not None:
            ret = s
            continue
        raise Untranslatable('statement in _map_index_to_line_and_column')
    if loop is None or ret is None or len(lists) != 2 or len(counters) != 2:
        raise Untranslatable('shape')
    if not (isinstance(loop.target, ast.Name) and isinstance(loop.iter, ast.Name) and loop.iter.id == 'text'
            and not loop.orelse):
        raise Untranslatable('loop header')
    c = loop.target.id
    cnames = [x for x, _ in counters]
    et = ExprTr(str_names=(c,))

    def upd(stmts):
        """counter updates -> nested lets ending in the tuple of counters"""
        if not stmts:
            return '(' + ', '.join(cnames) + ')'
        s, rest = stmts[0], stmts[1:]
        if isinstance(s, ast.AugAssign) and isinstance(s.target, ast.Name) and s.target.id in cnames \
                and isinstance(s.op, ast.Add):
            return f'(let {s.target.id} := ({s.target.id} + {et.tr(s.value)}) in {upd(rest)})'
        if isinstance(s, ast.Assign) and len(s.targets) == 1 and isinstance(s.targets[0], ast.Name) \
                and s.targets[0].id in cnames:
            return f'(let {s.targets[0].id} := {et.tr(s.value)} in {upd(rest)})'
        raise Untranslatable('counter update')

    stmts = list(loop.body)
    if not (stmts and isinstance(stmts[0], ast.If)):
        raise Untranslatable('loop body')
    branch = stmts[0]
    update = f'(if {et.tr(branch.test)} then {upd(branch.body)} else {upd(branch.orelse)})'
    appends = stmts[1:]
    appended = []
    for s in appends:
        if not (isinstance(s, ast.Expr) and isinstance(s.value, ast.Call) and isinstance(s.value.func, ast.Attribute)
                and s.value.func.attr == 'append' and isinstance(s.value.func.value, ast.Name)
                and len(s.value.args) == 1 and isinstance(s.value.args[0], ast.Name)):
            raise Untranslatable('append shape')
        appended.append((s.value.func.value.id, s.value.args[0].id))
    if sorted(a for a, _ in appended) != sorted(lists) or len(appended) != 2:
        raise Untranslatable('appends')
    # return line_numbers, column_numbers: the pair order of the result
    if not (isinstance(ret.value, ast.Tuple) and len(ret.value.elts) == 2
            and all(isinstance(x, ast.Name) for x in ret.value.elts)):
        raise Untranslatable('return shape')
    order = [x.id for x in ret.value.elts]
    src = dict(appended)
    pair = '(' + ', '.join(src[x] for x in order) + ')'
    init = ' '.join(str(v) for _, v in counters)
    params = ' '.join(cnames)
    return (f'Fixpoint gen_lc_loop (t : list nat) ({params} : nat) : list (nat * nat) :=\n'
            f'  match t with\n  | [] => []\n  | {c} :: t\' =>\n'
            f'    let \'({", ".join(cnames)}) := {update} in\n'
            f'    {pair} :: gen_lc_loop t\' {params}\n  end.\n'
            f'Definition gen_lc_map (t : list nat) : list (nat * nat) := gen_lc_loop t {init}.\n')


def write_if_changed(path, text):
    old = open(path).read() if os.path.exists(path) else None
    if old != text:
        os.makedirs(os.path.dirname(path), exist_ok=True)
        with open(path, 'w') as f:
            f.write(text)
        return True
    return False


if __name__ == '__main__':
    text, st = gen_excerpt(sys.argv[1] if len(sys.argv) > 1 else '/repo')
    print(text)
    print(st, file=sys.stderr)
