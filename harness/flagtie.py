"""Regenerates Gen/FlagsGen.v from the flag methods of /repo's expression classes and checks Gen/TieFlags.v
(gen_always = Model.always, gen_partial = Model.partial true, for every expression) - see translate_flags.py."""
import os

from . import core, translate, translate_flags


def regen_and_tie_flags(R):
    text, status = translate_flags.gen_flags(core.REPO)
    R.fragments.update({'flags:' + k: v for k, v in status.items()})
    bad = {k: v for k, v in status.items() if v != 'translated'}
    if text is None:
        R.obligations.append({'name': 'tie_flags', 'file': 'Gen/TieFlags.v', 'status': 'failed', 'kind': 'tie', 'fragment': 'flag methods'})
        R.broken.append({'kind': 'tie', 'name': 'translate_flags.py:flag methods',
                         'detail': 'flag methods outside the translatable fragment, so the generated-from-source tie to Model.always / '
                                   'Model.partial cannot be established: ' + '; '.join(f'{k}: {v}' for k, v in sorted(bad.items()))[:600]})
        return False
    translate.write_if_changed(os.path.join(core.COQ, 'Gen', 'FlagsGen.v'), text.replace(core.REPO, '/repo'))
    rc, out = core.coqc('Gen/FlagsGen.v')
    if rc != 0:
        R.obligations.append({'name': 'tie_flags', 'file': 'Gen/TieFlags.v', 'status': 'failed', 'kind': 'tie', 'fragment': 'flag methods'})
        R.broken.append({'kind': 'tie', 'name': 'Gen/FlagsGen.v', 'detail': 'generated file does not compile: ' + out[-500:]})
        return False
    translate.write_if_changed(os.path.join(core.COQ, 'Gen', 'TieFlags.v'), translate_flags.TIE + 'Print Assumptions tie_flags.\n')
    ok = R.tie('tie_flags', 'Gen/TieFlags.v', 'always_succeeds / can_partially_succeed of every expression class')
    return ok
