"""Running the real implementation (imported from the repository's working
tree) and canonicalising what it does into the same text the model driver
prints."""
import re
import signal
import sys

from . import core
from .export import Exporter, ExportError

if core.REPO not in sys.path:
    sys.path.insert(0, core.REPO)

import sourcer                                   # noqa: E402
from sourcer import translator, Grammar         # noqa: E402

assert sourcer.__file__.startswith(core.REPO), sourcer.__file__

_captured = {}
_orig_assign = translator._assign_ids


def _hook(rules):
    _orig_assign(rules)
    _captured['rules'] = rules


translator._assign_ids = _hook


class Timeout(Exception):
    pass


def _alarm(sig, frm):
    raise Timeout()


signal.signal(signal.SIGALRM, _alarm)


def with_timeout(f, seconds=0.25):
    signal.setitimer(signal.ITIMER_REAL, seconds)
    try:
        return f()
    finally:
        signal.setitimer(signal.ITIMER_REAL, 0)


def build(desc, slow=False, lenient=False, **kw):
    """-> (module, export dict) ; raises whatever Grammar() raises, or ExportError"""
    _captured.clear()
    g = with_timeout(lambda: Grammar(desc, **kw), 120.0 if slow else 20.0)
    rules = _captured.get('rules')
    if rules is None:
        raise ExportError('translator._assign_ids was not reached')
    return g, Exporter(rules, lenient=lenient).export()


def drive(g, func, text, pos):
    """trampoline over the generated generator functions, no memo: the raw
    (status, result, pos) triple, also for failures"""
    ctx = (g._ctx,) if hasattr(g, '_ctx') else ()
    stack = [func(*ctx, text, pos)]
    result = None
    while stack:
        result = stack[-1].send(result)
        if result[0] != 3:
            stack.pop()
        else:
            stack.append(result[1](*ctx, text, result[2]))
            result = None
    return result


# ---- canonical text, identical to what ocaml/driver.ml prints ----
def plist(xs):
    return '(' + ' '.join(xs) + ')'


def cstr(s):
    return '(str ' + plist(str(c) for c in (s if isinstance(s, bytes) else map(ord, s))) + ')'


NODES = {'Infix': 0, 'Prefix': 1, 'Postfix': 2}


def canon(v, classes, raw=True, kinds=None):
    """raw=True: spans are (start, end) ints; raw=False: finalised _PositionInfo"""
    if v is None:
        return 'none'
    if isinstance(v, bool):
        return '(bool ' + ('true' if v else 'false') + ')'
    if isinstance(v, (str, bytes)):
        if kinds is not None:
            kinds.add(type(v).__name__ if type(v) in (str, bytes) else 'str' if isinstance(v, str) else 'bytes')
        return cstr(v)
    if isinstance(v, int):
        return f'(int {v})'
    if isinstance(v, list):
        return '(list ' + plist(canon(x, classes, raw, kinds) for x in v) + ')'
    if isinstance(v, tuple):
        return '(tuple ' + plist(canon(x, classes, raw, kinds) for x in v) + ')'
    if hasattr(v, '_fields') and hasattr(v, '_metadata'):
        name = type(v).__name__
        fs = plist(canon(getattr(v, f), classes, raw, kinds) for f in v._fields)
        if name in NODES and name not in classes:
            return f'(node {NODES[name]} {fs})'
        if name not in classes:
            raise ExportError(f'object of unknown class {name}')
        sp = v._metadata.position_info
        if raw:
            if not (isinstance(sp, tuple) and len(sp) == 2 and all(isinstance(x, int) for x in sp)):
                return f'(obj {classes[name]} {fs} badspan {sp!r})'
            return f'(obj {classes[name]} {fs} {sp[0]} {sp[1]})'
        try:
            a, b = sp.start, sp.end
            f = lambda p: f'({p.index} {p.line} {p.column})'
            return f'(obj {classes[name]} {fs} {f(a)} {f(b)})'
        except Exception:                       # noqa
            return f'(obj {classes[name]} {fs} badspan {sp!r})'
    if callable(v):
        return 'fun'
    return f'(unknown {type(v).__name__})'


def observe_raw(g, ex, entry, text, pos, timeout=0.25, retry=True):
    """-> canonical x-string: (done true V P) | (done false P) | timeout | (exc Type)"""
    name = ex['rule_names'][entry]
    func = getattr(g, '_try_' + name)
    try:
        try:
            st, res, p = with_timeout(lambda: drive(g, func, text, pos), timeout)
        except Timeout:         # a loaded machine, or a genuinely diverging parse: try once more, generously
            if not retry:
                raise
            st, res, p = with_timeout(lambda: drive(g, func, text, pos), 3 * timeout)
    except Timeout:
        return 'timeout'
    except (MemoryError, RecursionError):
        return 'timeout'
    except Exception as e:                      # noqa
        return f'(exc {type(e).__name__})'
    if st:
        try:
            kinds = set()
            c = canon(res, ex["classes"], kinds=kinds)
            # SPEC: the values of a parse are pieces of the input: bytes for bytes input, str for str input
            wrong = 'str' if isinstance(text, bytes) else 'bytes'
            if wrong in kinds:
                return f'(done true (wrongtype {wrong} {c}) {p})'
            return f'(done true {c} {p})'
        except ExportError as e:
            return f'(exc export:{e})'
    return f'(done false {p})'


def observe_parse(g, ex, entry, text, pos, full, timeout=0.25, module_level=False, retry=True):
    """public API -> canonical p-string"""
    name = ex['rule_names'][entry]
    try:
        if module_level:
            f = g.parse
        else:
            f = getattr(g, name).parse
    except AttributeError as e:
        return f'(exc AttributeError:{e})'
    try:
        try:
            v = with_timeout(lambda: f(text, pos, full), timeout)
        except Timeout:
            if not retry:
                raise
            v = with_timeout(lambda: f(text, pos, full), 3 * timeout)
        return f'(return {canon(v, ex["classes"], raw=False)})'
    except Timeout:
        return 'timeout'
    except (MemoryError, RecursionError):
        return 'timeout'
    except g.PartialParseError as e:
        lp = e.last_position
        try:
            return f'(partial {canon(e.partial_result, ex["classes"], raw=False)} ({lp.index} {lp.line} {lp.column}))'
        except Exception as e2:                 # noqa
            return f'(exc canon:{type(e2).__name__})'
    except g.ParseError as e:
        return f'(perr {e.position.index})'
    except Exception as e:                      # noqa
        return f'(exc {type(e).__name__})'


_rx_cache = {}


def rx_table(ex, text):
    """per regex of the grammar: end of Pattern.match(text, p) for p in 0..len, -1 = no match"""
    rows = []
    for pat, ic in ex['rx']:
        key = (pat, ic, text)
        row = _rx_cache.get(key)
        if row is None:
            try:
                r = re.compile(pat, re.I if ic else 0)
                row = []
                for p in range(len(text) + 1):
                    m = r.match(text, p)
                    row.append(-1 if m is None else m.end())
            except TypeError:
                row = [-1] * (len(text) + 1)   # str pattern on bytes (or the reverse): the real parser raises
            if len(_rx_cache) < 200000:
                _rx_cache[key] = row
        rows.append(row)
    return rows
