"""Random trees of parsed objects (shared by C14, C15, C16): nested objects, lists,
tuples, dicts, scalars, with controlled sharing of sub-objects and controlled
identity of equal leaves."""
import sys

from . import core

GRAMMAR = '''grammar vtrees
class A { x: "a"; y: "b" }
class B { z: "c" }
class E0 { }
class T3 { p: "p"; q: "q"; r: "r" }
start = A | B
'''
_mod = None


def module():
    global _mod
    if _mod is None:
        if core.REPO not in sys.path:
            sys.path.insert(0, core.REPO)
        from sourcer import Grammar
        _mod = Grammar(GRAMMAR)
    return _mod


def fresh_str(s):
    """a str object that is not shared with any other (defeats interning)"""
    return ''.join(list(s))


LEAVES = [lambda r: None, lambda r: True, lambda r: 1, lambda r: 0, lambda r: 1.0 if False else 2,
          lambda r: 'a', lambda r: fresh_str('a' * 2), lambda r: 'ab', lambda r: fresh_str('xyz' * 3),
          lambda r: 10 ** 20 + r.randrange(3), lambda r: b'ab', lambda r: False]


def gen(rnd, depth, pool, share=0.25, kinds=('obj', 'list', 'tuple', 'dict', 'leaf')):
    """pool: previously built sub-trees that may be re-used (sharing)"""
    g = module()
    if pool and rnd.random() < share:
        return rnd.choice(pool)
    if depth <= 0:
        return rnd.choice(LEAVES)(rnd)
    k = rnd.choice(kinds + ('obj', 'obj'))
    sub = lambda: gen(rnd, depth - 1, pool, share, kinds)
    if k == 'leaf':
        return rnd.choice(LEAVES)(rnd)
    if k == 'list':
        v = [sub() for _ in range(rnd.randrange(0, 4))]
    elif k == 'tuple':
        v = tuple(sub() for _ in range(rnd.randrange(0, 4)))
    elif k == 'dict':
        v = {key: sub() for key in rnd.sample(['k1', 'k2', 'k3', 7], rnd.randrange(0, 4))}
    else:
        cls = rnd.choice([g.A, g.B, g.E0, g.T3, g.Infix, g.Prefix, g.Postfix])
        v = cls(*[sub() for _ in cls._fields])
        if rnd.random() < 0.5:
            v._metadata.position_info = (rnd.randrange(5), rnd.randrange(5, 9))
    pool.append(v)
    return v


def is_obj(v):
    return isinstance(v, module().ParsedObject)


def export(v, ids=None):
    """-> s-expression with the identities CPython gives the nodes (numbered by first visit)"""
    ids = {} if ids is None else ids

    def num(x):
        return ids.setdefault(id(x), len(ids) + 1)

    def go(x):
        if is_obj(x):
            return ['o', num(x), [go(getattr(x, f)) for f in x._fields]]
        if isinstance(x, (list, tuple)):
            return ['c', num(x), [go(y) for y in x]]
        if isinstance(x, dict):
            return ['c', num(x), [go(y) for y in x.values()]]
        return ['l', num(x)]
    return go(v), ids


def size(v):
    if is_obj(v):
        return 1 + sum(size(getattr(v, f)) for f in v._fields)
    if isinstance(v, (list, tuple)):
        return 1 + sum(size(y) for y in v)
    if isinstance(v, dict):
        return 1 + sum(size(y) for y in v.values())
    return 1
