#!/bin/bash
# tools/seedcheck.sh [name...] : apply every seeded change (seeded/<name>/patch.diff) to /repo in turn, run the check(s)
# recorded in its meta.json (caught_by), restore /repo.  Expect rc=1 + VIOLATION for each.  Never commits anything.
cd /verif || exit 2
names="$@"; [ -z "$names" ] && names=$(ls seeded)
git -C /repo diff --quiet || { echo "/repo is not clean"; exit 3; }
for n in $names; do
  p=seeded/$n/patch.diff
  checks=$(python3 -c "import json,re,sys; m=json.load(open('seeded/$n/meta.json')); print(' '.join(sorted(set(re.findall(r'C\d\d', m.get('caught_by',''))))) or m['property'])")
  if ! git -C /repo apply --check /verif/$p 2>/dev/null; then echo "$n: PATCH DOES NOT APPLY"; continue; fi
  git -C /repo apply /verif/$p
  res=""
  for c in $checks; do
    out=$(timeout 1500 ./check $c 2>&1); rc=$?
    v=$(echo "$out" | grep -c '^VIOLATION')
    res="$res $c:rc=$rc,violations=$v"
    [ $rc -eq 1 ] && [ $v -gt 0 ] && break
  done
  git -C /repo checkout -- .
  echo "$n:$res"
done
