#!/bin/bash
# run every registered quick check once, sequentially; summary on stdout
cd /verif
for p in C01 C02 C03 C04 C05 C06 C07 C08 C09 C10 C11 C12 C13 C14 C15 C16 C17 C18 C19 C20; do
  s=$(date +%s)
  out=$(timeout 1500 ./check $p --tier ${1:-quick} 2>&1)
  rc=$?
  e=$(date +%s)
  echo "$p rc=$rc $((e-s))s $(echo "$out" | grep -c '^VIOLATION') violation(s) $(echo "$out" | grep -c '^KNOWN-FINDING') known | $(echo "$out" | tail -1 | cut -c1-120)"
done
