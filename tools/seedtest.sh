#!/bin/bash
# tools/seedtest.sh <ID> <worktree> [checks...] : verify a seeded change and run checks against it
# 1. in the worktree: tests pass with the change, demo fails with / passes without
# 2. copy patch/demo/meta to /verif/seeded/<name>/
# 3. apply to /repo, run the checks, undo
name=$1; wt=$2; shift 2
checks="$@"
set -u
cd "$wt" || exit 2
echo "== verify in $wt"
PYTHONPATH=$wt /venv/bin/python -m pytest -q -p no:cacheprovider 2>&1 | tail -1
PYTHONPATH=$wt timeout 300 /venv/bin/python seeded/demo.py > /tmp/seed_demo_with.log 2>&1; echo "demo WITH change: rc=$? $(tail -1 /tmp/seed_demo_with.log | cut -c1-80)"
git diff > /tmp/seedtest_wt.diff; git checkout -q -- .
PYTHONPATH=$wt timeout 300 /venv/bin/python seeded/demo.py > /tmp/seed_demo_without.log 2>&1; echo "demo WITHOUT change: rc=$? $(tail -1 /tmp/seed_demo_without.log | cut -c1-80)"
git apply /tmp/seedtest_wt.diff
mkdir -p /verif/seeded/$name
cp seeded/patch.diff seeded/demo.py seeded/meta.json /verif/seeded/$name/ 2>/dev/null
cd /repo
if ! git apply --check /verif/seeded/$name/patch.diff 2>/dev/null; then echo "PATCH DOES NOT APPLY to /repo"; exit 3; fi
git apply /verif/seeded/$name/patch.diff
echo "== applied to /repo; running checks: $checks"
cd /verif
for c in $checks; do
  out=$(timeout 1500 ./check $c 2>&1); rc=$?
  echo "$c rc=$rc | $(echo "$out" | grep -c '^VIOLATION') violation line(s) | $(echo "$out" | grep '^VIOLATION' | head -3 | sed 's/.*replays.//' | tr '\n' ' ') | $(echo "$out" | tail -1 | cut -c1-110)"
  mkdir -p /verif/seeded/$name/replays
  for f in $(echo "$out" | grep '^VIOLATION' | sed 's/.*replay=\([^ ]*\).*/\1/' | head -3); do cp "$f" /verif/seeded/$name/replays/ 2>/dev/null; done
done
git -C /repo checkout -- .
git -C /repo status --short | head -3
