#!/venv/bin/python
"""Regenerates /verif/MANIFEST.json from the table below (kept valid at all times)."""
import json

PROPS = [json.loads(l) for l in open('/verif/properties.jsonl')]
TB = ('trusted: Coq 8.16.1 kernel, extraction (ExtrOcamlBasic only), ocaml/driver.ml glue, the Python harness '
      '(exporter, generators, implementation runner, canonicaliser, translate.py); modelled not verified: Python re '
      '(oracle tables), str/bytes slicing, inline Python (closed vocabulary), CPython generator semantics, outsourcer.CodeBuilder. ')

CHECKS = {
 'C01': dict(
   text='Coq theorem exec_refines_peg (one induction on fuel, one lemma per generated loop): for every grammar over the core '
        'constructs, every nesting and every input the register-machine model of the generated code (status/result/pos, '
        'checkpoints emitted or omitted according to always_succeeds()/can_partially_succeed()) returns exactly the value and '
        'end position of the PEG specification, fails exactly when it fails, never gets stuck, and a failing sub-expression '
        'whose flag says "cannot move" leaves the position where it started. The model is tied to /repo on every run by '
        'behavioural correspondence on sourcer\'s own elaboration of generated grammar texts: raw (status, value, position) '
        'triples including the position register after failures, both static flags at every node, and parse() outcomes, on '
        'a stratified enumeration {construct} x {restoring context} x {continuation} x all short inputs, text and bytes mode; '
        'the extracted specification judges the implementation directly (the search for a failing input).',
   note=TB + 'Since 2026-09-24 the two flag methods of every expression class are also TRANSLATED from the current source on every run (harness/translate_flags.py -> Gen/FlagsGen.v) and proved equal to the model\'s (Gen/TieFlags.v). Hypotheses of the theorem = the property\'s well-formedness: '
        'non-empty choices, well-scoped lets, rule bodies well formed (the former hypothesis about Skip items that match without consuming went with the repair of that defect). Byte literals in text-mode grammars are not generated.',
   technique='Coq refinement proof (model of generated code vs PEG spec) + differential correspondence via extracted OCaml model',
   ref='DESIGN.md §6 C01'),
 'C02': dict(
   text='Coq theorem C02_yield (any table, any token sequence, any stack depth): the tree returned by the shunting-yard loop of '
        'OperatorTable._compile reads back, in order, as exactly the tokens consumed (stack invariants over '
        '_operator_marker/_outer_checkpoint). Coq theorem C02_precedence_and_associativity (PrecOk.v; any table, any token '
        'sequence, no bound): the returned tree is well-formed for the table - at every infix node the operators on the facing '
        'spines of the operands sit in tighter rows, or in the same row on the side its associativity allows, so operators of a '
        'non-associative row are never chained; prefix/postfix nodes dominate the facing spine of their operand strictly - '
        'proved by a stack invariant of the loop (pop_while/prec_loop/postfixes); the extracted judgement pok is applied to '
        'every tree the real parser returns. Coq theorem C02_extent (same quantifiers): the expression ends only where no postfix '
        'operator stands and no infix operator either, unless that operator is not followed by an operand (left unconsumed) or belongs '
        'to a non-associative row. Tree shape and extent (precedence, associativity, non-chaining of non-associative '
        'rows, prefix/postfix attachment, dangling operator left unconsumed) are stated by an independent precedence-climbing '
        'reference (Pratt.v); loop = reference is proved inside the kernel for ALL token strings up to length 5-9 over five '
        'tables covering every row kind and shared spellings (finite theorems), and checked against the implementation on '
        'every run. Correspondence: random tables x all token strings up to length 5: expression-level model (raw triples '
        'incl. failure position), token-level loop model, the reference, and the yield judge on every successful parse; '
        'character-level tables (++ vs +, mixfix, ignore) through the expression-level model.',
   note=TB + 'Known finding: a postfix operator is preferred over a longer infix operator of another row matching at the same place. Character-level tables with overlapping multi-character spellings and tables written inline inside another table are judged by the rule of the property (ordered inside a row, longest across rows) + the token-level reference. partial: the yield, precedence/associativity well-formedness and the stop reasons (extent) are proved without bound; uniqueness of a well-formed tree with a given yield is carried by the finite kernel sweeps loop = reference and by the differential runs; mixfix rows are covered by correspondence and by C01\'s Longest/Choice semantics only.',
   technique='Coq proofs of the yield invariant and of precedence/associativity well-formedness (stack invariants of the loop, unbounded) + kernel-computed finite equivalence with a reference + differential correspondence',
   ref='DESIGN.md §6 C02'),
 'C03': dict(
   text='Same refinement theorem as C01 specialised to bounded repetition (literal and run-time bounds; a run-time lower bound above the upper '
        'bound makes the list fail: Refine.rep_conflict_ok) and Sep with its four options: greedy up to the upper '
        'bound, failure below the lower bound, trailing separator consumed iff allow_trailer, allow_empty/require_separator, '
        'and no effect of an uncompleted list on the enclosing alternative/continuation (position restored, by the flag '
        'soundness clause). Correspondence: elements that can fail after consuming x bounds 0..3 in all four surface forms x '
        'six data-dependent forms x all 12 accepted Sep option combinations x seven contexts x all short inputs.',
   note=TB + 'Added 2026-09-24: the translated flag tie; bounds that are parameters of a rule/class (first thing in the body), literal bounds with leading zeros, lookaheads around lists as alternatives / Skip items / Longest options. e{m,n} with run-time m > n was first left unspecified; it is now specified (the list fails), proved and repaired in /repo (see DESIGN.md, defect D41).',
   technique='Coq refinement proof + differential correspondence via extracted OCaml model',
   ref='DESIGN.md §6 C03'),
 'C04': dict(
   text='Coq theorems: the refinement theorem covers grammars with ignore declarations (the rule call to the synthetic '
        '_ignored rule after every flagged literal is part of model and spec); C04_flagged_*_literal: a flagged literal means '
        'exactly literal << _ignored (skipping immediately after a successful match, never showing in the value, nothing '
        'consumed when the literal fails), C04_unflagged_literal: no other point consults the ignore rule. The translator\'s '
        'rewriting itself (flag on every literal, _ignored = Skip(ignore rules), start body/first class member prefixed) is '
        'checked on every run on the exported expression objects and by comparing each generated grammar with the same '
        'grammar in which the skipping is written out explicitly (l << Skip(I), start = Skip(I) >> body); lengthened '
        'ignorable runs are run as metamorphic pairs.',
   note=TB + 'Added 2026-09-24: ignore sets made of regular expressions only (groups, backreferences, top-level alternation), a bytes-mode stratum (byte literals, bytes strings, bytes regexes), the start rule spelled in several capitalisations; the translated flag tie. The insensitivity claim (lengthening an ignored run changes no value) is decided by metamorphic differential '
        'runs only; its simulation proof is not done (stated in DESIGN.md).',
   technique='Coq refinement proof + lemmas on flagged literals; differential check of the translator rewriting against the explicit form',
   ref='DESIGN.md §6 C04'),
 'C05': dict(
   text='Coq theorem C05_scoping (= the refinement theorem with the environment invariant sub E (locals s)): the generated code, '
        'whose bound names are flat Python locals of the enclosing rule function, agrees with the lexically scoped specification '
        '(let binds in its body only, class members see earlier named members, every rule invocation starts empty) for let, '
        'class fields incl. let/pass/requires, where, |>, <|, data-dependent counts — so a read never observes a value from an '
        'abandoned alternative, a sibling, a recursive invocation or a shadowing inner let (the let saves/restores the outer '
        'value when the translator marked it as shadowing; the theorem assumes that mark is placed exactly when the name is in '
        'scope, which the check verifies on every exported grammar). Correspondence: scoping scenarios + random expressions, '
        'raw triples and parse outcomes, locals-dependent results.',
   note=TB + 'Added 2026-09-24: predicates false after a literal operand consumed, re-binding inside a defining expression and inside compound arguments, locals named like rules (scenarios + a metamorphic renaming stream on the implementation alone); the translated flag tie. The former finding (a let nested in a class member re-binding an earlier FIELD) was repaired in /repo (215eb89): the hypothesis of C05_scoping about the shadows flag now holds for class fields too and is checked on every exported grammar. Inline Python is a closed vocabulary; parameters of templates are covered under C06.',
   technique='Coq refinement proof with environment invariant (flat locals vs lexical scoping) + differential correspondence',
   ref='DESIGN.md §6 C05'),
 'C06': dict(
   text='Coq theorem C06_calls_refine_spec: the refinement theorem covers Call and RefL. The specification gives T(args) the meaning '
        '"body of T in a scope of its own with every parameter bound (positionally, then by keyword) to its argument", an argument '
        'expression being a closure over the values of the caller\'s names it mentions (the argument substituted for the parameter, '
        'evaluated where and when the body uses it); the model passes arguments as the generated code does (argumentize, lifted '
        'functions with sorted free variables, _ParseFunction, arity check, fresh callee locals). Hence no TypeError/NameError from '
        'the calling convention, exact values and positions, and independence of instantiations (caller locals untouched). '
        'Correspondence: catalogue of templates x call sites (literal, compound, rule, class, nested, recursive, keyword, value, '
        'captured names, several instantiations at one position) x {unnamed, named}; each site with a finite expansion is also '
        'compared with the hand-expanded grammar on the implementation.',
   note=TB + 'Added 2026-09-24: streams nested-python-arguments (Python inside a nested call: evaluated where and when the parameter is used), literal-values (a literal argument is that value: type, content, picklable), bytes half of inherited-templates; the translated flag tie. hashing of argument values as memo keys is outside the model (unhashable arguments are simply not memoised). The former finding (names used only in inline Python / counts of an argument were not captured) was repaired in /repo (88af674).',
   technique='Coq refinement proof (closure semantics of template calls) + differential correspondence and hand expansions',
   ref='DESIGN.md §6 C06'),
 'C07': dict(
   text='Coq theorems on a machine model of _run (explicit stack of suspended generators each with its memo key or None, memo, value '
        'being sent, log of memoised body starts, count of unkeyed starts; rule bodies abstract interaction trees with memoised calls '
        'and calls through an unhashable key, which run in a frame with key None and are neither stored nor looked up): C07_memo_transparent (the machine ends with exactly the triple of '
        'direct memo-free evaluation; memo entries are values of direct evaluation; a hit replays them), C07_at_most_once '
        '(NoDup of the body-start log under the exact no-left-recursion rank hypothesis), C07_bound (<= rules x (len+1)). '
        'Tied to /repo by driving the REAL _run of a generated module with scripted generator functions and comparing '
        'result, body-start order and number of unkeyed starts with the extracted machine (a third of the scripts make calls through '
        'unhashable keys), and by counting evaluations per (rule, position) with '
        'wrappers around the generated _try_<rule> functions on grammar families whose un-memoised evaluation is exponential.',
   note=TB + 'Added 2026-09-24: alias rules (a rule that is a bare reference), identity of list/tuple/dict values across references at one position. identity (`is`) of replayed results and side effects of inline Python are observed on the implementation only.',
   technique='Coq proof on a state-machine model of the trampoline + differential execution of the real _run against the extracted machine',
   ref='DESIGN.md §6 C07'),
 'C08': dict(
   text='Coq theorem C08_three_outcomes: for every well-formed grammar, every parameterless rule or class used as entry '
        'point, every text, start offset and value of fullparse, the model of _run\'s tail and _finalize_parse_info returns the '
        'matched value (spans finalised) / raises PartialParseError with that value and last_position.index = end of match / '
        'raises ParseError exactly as the specification\'s match dictates, and nothing else (derived from the refinement '
        'theorem; finalisation is total, including zero-width objects and the empty text). C08_shift_law (Shift.v): parsing text '
        'from offset k equals parsing text[k:] from 0 with the end of the match and every span in the value shifted by k, for '
        'every expression without Backtrack (template calls included) under the stated relation of the two regex oracles. Tied to /repo by correspondence '
        'through the public API: R.parse / C.parse of every rule and class and module-level parse, all offsets, both '
        'fullparse values, all short inputs incl. empty and multi-line, values with finalised spans compared exactly.',
   note=TB + 'Added 2026-09-24: chains of three grammars compared entry point by entry point with the grammar written without inheritance; entry points of parameterised classes with arguments of every kind (unhashable ones included). The shift law is proved on the specification (hence, by refinement, on the expression machine) and compared differentially on the implementation; the line/column part of a shifted position is covered by the C09 theorems; derived grammars as entry points are covered by a three-outcome consistency stream (both fullparse values must tell the same story); inline Python is assumed not to raise.',
   technique='Coq proof (three-outcomes theorem from the refinement theorem) + differential correspondence through the public API',
   ref='DESIGN.md §6 C08'),
 'C10': dict(
   text='Coq theorems: C10_span_exact (the (start,end) stored on every instance by the generated code is the specification\'s: '
        'where the class match began / the position after its last member incl. skipped ignorable text — part of the refinement '
        'theorem), C10_nested (every span inside the consumed range and inside its parent\'s span; lookahead/Backtrack aside), '
        'C10_finalised_span (conversion to (index,line,column) of start and last consumed offset), C10_spans_ordered (Ordered.v: '
        'the value of every match of a plain expression passes the executable judge SpanSpec.spans_ordered, any nesting, any '
        'input) with C10_judge_spans_inside / C10_list_elements_in_order / C10_fields_nested_and_ordered saying what the verdict '
        'means (successive siblings disjoint and in input order, fields inside the instance), C10_every_instance_finalised '
        '(FinalizeVisit.v: the finalisation walks the result with visit, whose completeness theorem gives that EVERY instance of the '
        'result - below span-less operator nodes and hand-built objects, inside shared containers - is converted, once, and nothing '
        'else is touched; tied to the code by an ast check that _finalize_parse_info converts spans inside `for node in visit(nodes)` '
        'only, and by the stream finalised-everywhere on operator tables and hand-built results with spans computed independently). '
        'The same judge (extracted) runs '
        'on the implementation\'s results. Correspondence: nested/repeated/optional/separated classes, memo reuse, templates, ignore '
        'declarations, multi-line input, non-zero start offsets; raw and finalised spans of every instance compared.',
   note=TB + 'Added 2026-09-24: class layouts (every arrangement of up to three kept/omitted/optional/looked-at members), random class bodies, instances handed back by inline Python. conversion exactly once for instances shared through the memo: object identity is in FinalizeVisit.v (identities of the visit model), not in the grammar-run model; the order theorem excludes lookahead, Backtrack, reads of bound values, template calls and operator tables (Within.plain), where the judge still runs on the implementation.',
   technique='Coq refinement + span containment proofs; extracted executable span predicate as judge; differential correspondence',
   ref='DESIGN.md §6 C10'),
 'C09': dict(
   text='Coq theorems (unbounded: every text, line length, column) that the model of _map_index_to_line_and_column/'
        '_extract_excerpt/_caret_at gives line = 1 + newlines before the index, column = 1 + offset in line, a one-line '
        'excerpt and a caret under text[index]; the model is regenerated from sourcer/translator.py on every run '
        '(Gen/ExcerptGen.v) and proved equal to the hand-written model (tie lemmas), and additionally compared with the '
        'real runtime on an exhaustive (line length, column) sweep through ParseError, PartialParseError and bytes input; '
        'the executable specification (extracted from Coq) judges the implementation\'s own output.',
   note=TB + 'Added 2026-09-24: a blank at the failure point followed by visible text. Python\'s re.search for a newline and str slicing are modelled; the claim that the failure index never lies '
        'beyond the furthest failure is carried by the refinement theorem of C01 (failure position), not by this check.',
   technique='Coq proof over a model regenerated from source + tie lemmas; differential sweep model vs runtime',
   ref='DESIGN.md §6 C09'), 'C11': dict(
   category='translation_validation',
   text='Differential validation of the module-production variants: each description (core shapes, scoping scenarios, every template '
        'call site of C06, an operator table, classes with ignore) is compiled unnamed, named, with include_source on/off and a second '
        'time, and the emitted _source_code is executed on its own in `python -I -S` with neither site-packages nor the repository on '
        'sys.path (self-containedness); all variants must return equal values (with spans) or raise the same error class at the '
        'same position on every input; the entry points of rules, classes and parameterised classes with and without a header; inline '
        'Python whose behaviour depends on the compilation mode (assert, __debug__, docstrings, annotations). In the Coq model a `grammar <name>` header has no semantic effect at all (it only threads '
        'one more parameter through every generated signature and call), which is what the named-vs-unnamed runs confirm for the code.',
   note=TB + 'Added 2026-09-24: variants compiled after other grammars (rules named like every constructor), descriptions nested past the block budget. partial: the theorems (Props/C11.v) cover the one semantic switch, uses_context; that CPython executes the emitted text the same way in a fresh module, include_source and repeated compilation are decided by differential runs (DESIGN.md §9).',
   technique='Coq proof of the calling-convention core (Conv.v: every call binds, a grammar name is irrelevant) + differential execution of 5 in-process variants and of the emitted source in an isolated interpreter',
   ref='DESIGN.md §6 C11'),
 'C12': dict(
   category='translation_validation',
   text='Bootstrap generations compared on every run in scratch copies: generation 1 (Grammar(grammar.txt) by the current code running on '
        'the shipped parser) accepts grammar.txt and equals the shipped sourcer/parser.py textually (header line aside); generation 2 '
        '(the same with generation 1 installed) equals generation 1 byte for byte. Because generation 0 and 1 are the same program text, '
        'their agreement on ALL grammar descriptions follows from that identity; a corpus run (every grammar string of the repository\'s '
        'tests/docs/examples, generated descriptions, deeply nested descriptions, ~1500 corrupted variants: tree repr or error class and '
        'position) cross-checks it, with the IN-MEMORY generation 1 (the module Grammar() returns, which is what "compiling grammar.txt '
        'with the current code" yields) as a third candidate.',
   note=TB + 'no theorem about generate_parser.py; the meaning of the meta-grammar itself is covered by the C01-C06 theorems applied to grammar.txt like to any grammar.',
   technique='Coq lemmas for the inference (a reproduced text is reproduced forever; same text, same behaviour) + concrete textual fixed-point check of bootstrap generations 0/1/2 + differential corpus run',
   ref='DESIGN.md §6 C12'),
 'C13': dict(
   text='Coq theorems on the model of name resolution through the per-module context objects (Ctx.v), for chains of ANY length: '
        'C13_context_is_late_binding (the context the translator builds — own rules, then every ancestor\'s rules not yet defined — '
        'resolves a name exactly as walking the chain from the most derived grammar does), C13_override_wins, '
        'C13_unmentioned_rules_as_in_parent, C13_super_is_the_static_parent (super.R written in a grammar denotes R below that '
        'grammar whatever grammar the parse was started through). The behaviour of the modules is decided by comparing every '
        'generated chain (2-3 named grammars over a 4-rule base, every mix of overridden/inherited/new rules, super at every '
        'level, ignore declarations in base and/or derived, modules used in random order) with its FLATTENED grammar on ~250 '
        'inputs, every entry point of the parent before/after, and inherited entry points; chains with templates, rule arguments, super '
        'calls with arguments, qualified grammar names, an ignore pattern of its own at every level, a class.',
   note=TB + 'Added 2026-09-24: overrides that fail after consuming where the parent\'s rule could not, parent rules nested 3-11 levels deep, a named ignore rule overridden by the child. partial: importlib/sys.modules plumbing, re-parsing of the parent\'s description and ignore handling are covered by the differential runs only. Known finding (narrowed): entry points of inherited CLASSES run with the context of the parent (for inherited rules repaired in /repo). Formerly: entry points of inherited rules/classes run with the parent\'s context.',
   technique='Coq proof on a context-resolution model + differential comparison of grammar chains with their flattened grammar',
   ref='DESIGN.md §6 C13'),
 'C14': dict(
   text='Coq theorems on a model of ParsedObject.__eq__/__hash__/_hash over nested values (scalars with Python\'s == quotiented, '
        'lists, tuples, objects): C14_eq_iff (equal iff same class and pairwise equal fields), C14_eq_refl/sym/trans (equivalence '
        'relation), C14_eq_implies_hash (equal objects have equal hashes, also with unhashable list members and tuples containing '
        'them, for any builtin hash that respects == on scalars), C14_replace. Tied to /repo by comparing == of the real objects '
        'with the extracted py_eq on random pairs, and the remaining API (_asdict order, _replace, copy.deepcopy, pickle round '
        'trip for the named grammar, eval(repr(o))) is judged directly on the implementation.',
   note=TB + 'Added 2026-09-24: _asdict after the caller hung an attribute of its own on the object. partial: dict-valued fields, deepcopy/pickle (Python copy protocol) and repr round trip are decided by differential runs only, not by a theorem; floats are excluded.',
   technique='Coq proof (== is an equivalence, hash respects it) + differential correspondence and API-level checks on random object trees',
   ref='DESIGN.md §6 C14'),
 'C15': dict(
   text='Coq theorems over trees whose nodes carry CPython identities (any assignment): C15_visit_is_dfs (the explicit-stack '
        'loop of visit = recursive preorder with first-occurrence de-duplication of objects, through fields, lists, tuples, '
        'dict values), C15_visit_once (NoDup, nothing already visited), C15_visit_marks_containers / _marked_once / _marked_complete (visit as '
        'repaired: one visited set for objects AND containers; the loop equals the recursive specification with containers '
        'de-duplicated; nothing reachable is lost when an identity stands for one node), C15_traverse_spec (the explicit-stack loop of traverse '
        'emits exactly the bracketed recursive event sequence: one entering and one finished event per occurrence, containers '
        'expanded at their first occurrence only, repeated equal leaves each reported). Correspondence: random trees with '
        'controlled sharing and leaf identity, list(visit) by identity and list(traverse) as (parent, field, child, finished) '
        'events against the extracted loops and the extracted recursive specifications; depth up to 10^5 on the implementation.',
   note=TB + 'absence of RecursionError, termination on containers that contain themselves and the number of expansions of a shared container are observations on the implementation (cyclic structures are not expressible in the finite tree model).',
   technique='Coq proof (explicit-stack loop = recursive spec, completeness under consistent identities) + differential correspondence on random trees + specification streams on cyclic/shared containers',
   ref='DESIGN.md §6 C15'), 'C16': dict(
   text='Coq theorems on a model of transform/_transform over trees with identities and metadata, threading the supply of fresh '
        'identities and the callback log: C16_identity (identity callback: same shape, classes and metadata; the very same '
        'object unless a list sits below it), C16_once (the callbacks are applied exactly once per object occurrence of the '
        'input, whatever they return), C16_children_first (the parent is rebuilt from its transformed children and passed to the '
        'callbacks last), C16_metadata_inherited / C16_metadata_own_kept, C16_chain_of_identities, C16_chain_keeps_metadata (ANY chain of '
        'callbacks that bring no metadata of their own: a result that is a parsed object carries the metadata of the node it stands '
        'for, whatever scalars, lists or copies lie in between; false of the shipped chain: C16_shipped_chain_refuted, repaired in '
        '/repo), C16_input_objects_untouched (metadata is only ever attached to a node made by the hand-over itself: whatever comes back '
        'under an identity of the input is the callback\'s answer, untouched; false of the shipped rule: C16_shipped_hand_over_refuted, '
        'repaired in /repo). Specification streams on the implementation: callbacks returning equal-but-distinct copies (no object of the '
        'result may be an input node; result equal to the input; metadata of the node it stands for), node -> scalar -> fresh object (metadata), callback count. Correspondence: random trees x '
        'chains of 1-3 callbacks from a closed family (replace by fresh object with/without metadata, by scalar, by list, by a '
        '_replace copy, by an existing child), result tree with its identity relation to the input, metadata of every node, '
        'callback log, deep snapshot of the input before and after.',
   note=TB + 'Added 2026-09-24: leaves that only look like parsed objects (namedtuples, objects of another module, look-alike classes) and containers that are not fields-and-lists pass through untouched and unvisited. a callback returning an input node with empty metadata makes transform write to that node: counted in the evidence, not judged (the property speaks of replacement objects).',
   technique='Coq proof on a functional model with identities + differential correspondence on random trees and callback chains',
   ref='DESIGN.md §6 C16'), 'C17': dict(
   text='Coq theorems: C17_wrappers_transparent (on the specification, any stack of transparent wrappers — [e], Opt(e) on a '
        'matching e, choice with a failing branch, Fail() | e — of ANY length returns the correspondingly wrapped value; the '
        'generated parsers follow by the refinement theorem), C17_spill_transparent (executing a sub-expression through a helper '
        'function that receives only its declared free variables is transparent for EVERY placement of helpers, proved on the '
        'mini-language of Spill.v, so the block accounting need not be modelled). Correspondence: 10 inner expressions x 9 wrapper '
        'stacks x depths 1..120 (every depth across the 20-block threshold) x {unnamed, named} x {ignore, none} against the model '
        'and specification; recursion depth 10^3..10^5 through plain rules, templates, classes on the implementation.',
   note=TB + 'Added 2026-09-24: deep recursion through templates whose argument grows with the depth and through parameterised classes; deeply nested rules of a parent grammar used through a child (late binding kept at every depth). partial: the Python/C stack is not modelled (no RecursionError is an observation); spill transparency is proved on a mini-language, the full model has no spilling. The former finding (names read only via inline Python / counts were not passed to the split-off helper) was repaired in /repo (88af674).',
   technique='Coq proofs (wrappers transparent at any depth; helper spilling transparent) + differential correspondence across the block-budget threshold',
   ref='DESIGN.md §6 C17'), 'C18': dict(
   text='Coq theorems on the model of a module with a history (the grammar plus a log of earlier calls): '
        'C18_outcome_independent_of_history (the outcome of a call is that of the call alone, for every history) and '
        'C18_calls_commute (two calls in either order produce the outcomes they produce alone) — true by construction because '
        'parse_model creates all per-call state (memo, stack, registers, line/column tables) inside the call. That the '
        'implementation has no other shared state is decided by runs: histories of 2-30 calls on five modules (some abandoned '
        'because inline Python raises) against freshly built modules, 2-8 threads x 150 calls with a 1 microsecond switch '
        'interval, nested parses from every callback kind (|>, where, class field, requires, module-level parse), compiling an '
        'extending grammar and a grammar that re-uses the name.',
   note=TB + 'Added 2026-09-24: threads CONSTRUCTING grammars at the same time, the same descriptions compiled in several orders, sequences that use a grammar name again, grammars that build lists/dicts in inline Python, entry points of parameterised classes called with equal-looking arguments. partial: a theorem about the model cannot exhibit a data race in CPython or state the model does not know about; those halves are exploration.',
   technique='Coq purity/commutation theorems on the call-history model + history, thread-schedule and re-entrancy runs against fresh modules',
   ref='DESIGN.md §6 C18'), 'C19': dict(
   text='Coq theorems on a model of _create_parsing_expression (Elab.v, constructor-call form included): each documented pair '
        '(e?/Opt, e*/List, e+/Some, >>/Right, <</Left, |/Choice for non-choice operands, [..]/Seq, ///Sep, /?/Sep(allow_trailer), '
        '{m,n}/List(min_len,max_len)) elaborates to the SAME expression; C19_grouping: the Expr table of grammar.txt (one spelling '
        'per row) run through the operator loop groups every token string up to length 5 as the precedence reference does '
        '(kernel computation; the rows of the real table are checked against the Coq constant on every run). The character-level '
        'alternatives (= : =>, ; vs newline, comments, blank lines, line breaks around operators, redundant parentheses, '
        'ignore/ignored, bare expression) are decided by rendering generated grammars in several spellings and comparing the '
        'exported expression objects and the behaviour.',
   note=TB + 'Added 2026-09-24: bounds that are names in both spellings, constructor forms without operands. partial: spelling variants at the character level live in the meta-grammar text and are decided by differential runs; nested choices flatten with | but nest with Choice(): compared by behaviour.',
   technique='Coq proof on an elaboration model (sugar pairs, grouping table) + differential comparison of exported expression objects across spellings',
   ref='DESIGN.md §6 C19'), 'C20': dict(
   text='Coq theorem on the namespace model (Names.v): user identifiers never start with an underscore, the generator\'s registers and '
        'temporaries (_<base><counter>) always do, hence no user identifier equals a temporary or a register '
        '(C20_user_names_never_temporaries / _never_reserved; the shipped allocation <base><counter> is refuted by value2); at module '
        'level the three names a rule/class u gives the module (u, _parse_u, _try_u) are never one of the generator\'s own functions '
        '(_function_<id>, _raise_error<id>, _matcher<id>): C20_rule_names_never_generated_functions (the shipped _parse_function_<id> is '
        'refuted by a rule named function_5). That the '
        'generator really allocates its names this way is checked on every run by a static scan (ast) of the emitted source; the '
        'behavioural claim — renaming changes nothing else — by renaming runs: six grammar templates x one identifier at a time renamed '
        'into every temporary look-alike, runtime scratch names, builtins, constructor names, plus fresh identifiers, compared with '
        'the plain grammar on every input and with the Coq model.',
   note=TB + 'Added 2026-09-24: every lower-case builtin of the running Python as a name, a template with literal-bounded repetitions, results of renamed grammars used through transform/_replace/_asdict/==/hash/repr/deepcopy/visit, a parent rule overridden or used by a child renamed into identifiers beginning with super/ctx/override/extends. partial: the theorems cover function-level names and the numbered module-level functions of the generator; the static scan checks on every run that no module-level name the generator defines has the shape X/_parse_X/_try_X. Known findings (each listed by identifier): locals named len/slice, rules named like builtins the runtime calls, templates named like expression constructors. The renaming-equivariance theorem of the expression model is not proved.',
   technique='Coq hygiene theorem on a namespace model + static scan of emitted code + differential renaming runs',
   ref='DESIGN.md §6 C20'),
}

PENDING = 'check under construction in this session (model/spec exist as design spikes under notes/spike; not yet wired into a registered check)'
NA = {}

m = {
 'version': 1,
 'setup_cmd': 'make -C /verif setup',
 'hooks': {'guard': 'SOURCER_VERIF',
           'enable': 'no hooks in /repo are needed: the harness monkey-patches sourcer.translator._assign_ids in its own process and drives the generated _try_<rule> generators itself',
           'baseline_off_cmd': 'cd /repo && /venv/bin/python -m pytest -ra -q -p no:cacheprovider --timeout=900 --continue-on-collection-errors',
           'source_commits': [], 'add_only': True},
 'engines': [{'name': 'coq-model', 'path': '/verif/coq', 'serves_properties': sorted(CHECKS),
              'kind_free_text': 'Coq 8.16 development: executable Gallina model + specification + refinement theorems; extracted to OCaml (ocaml/driver) for the correspondence check'}],
 'checks': [
   {'property_id': pid, 'quick_cmd': f'./check {pid} --tier quick', 'thorough_cmd': f'./check {pid} --tier thorough',
    'evidence_file': f'/verif/evidence/{pid}.json', 'replay_cmd_template': f'./check {pid} --replay {{path}}',
    'engine': 'coq-model',
    'level_claimed': {'category': c.get('category', 'proof'), 'text': c['text'], 'design_ref': c['ref']},
    'level_note': c['note'], 'technique': c['technique']}
   for pid, c in sorted(CHECKS.items())],
 'notes': 'Properties are added to "checks" as their Coq theorems and correspondence harness land; see DESIGN.md.',
 'not_applicable': [{'property_id': p['id'], 'reason': NA.get(p['id'], PENDING)} for p in PROPS if p['id'] not in CHECKS],
}
json.dump(m, open('/verif/MANIFEST.json', 'w'), indent=1)
print('checks:', sorted(CHECKS))
