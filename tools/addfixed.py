#!/usr/bin/env python3
"""tools/addfixed.py <property> <mechanism> <commit> <what> [replay-json] : append a `fixed` entry to known_findings.json"""
import json, sys
prop, mech, commit, what = sys.argv[1:5]
replay = json.loads(sys.argv[5]) if len(sys.argv) > 5 else {}
k = json.load(open('/verif/known_findings.json'))
k.append({'property': prop, 'status': 'fixed', 'mechanism': mech, 'commit': commit,
          'what': f'fixed: property={prop} {commit} {what}', 'replay': replay})
json.dump(k, open('/verif/known_findings.json', 'w'), indent=1)
print(len(k), 'entries')
