#!/bin/bash
# tools/seedregress.sh [names...] : re-apply stored seeded changes to scratch worktrees of /repo HEAD (never to /repo itself) and run
# the first check named in caught_by from a private copy of /verif; three at a time.  One line per change in /tmp/seedregress.log.
cd /verif || exit 2
names="$@"; [ -z "$names" ] && names=$(ls seeded)
export log=/tmp/seedregress.log; : > $log
one() {
  n=$1
  wt=/tmp/wr_$n; vf=/tmp/vr_$n
  c=$(python3 -c "import json,re; m=json.load(open('/verif/seeded/$n/meta.json')); cs=re.findall(r'C\d\d', m.get('caught_by','')) or [m['property']]; print(cs[0])")
  git -C /repo worktree add --detach $wt HEAD >/dev/null 2>&1
  if ! git -C $wt apply /verif/seeded/$n/patch.diff 2>/dev/null; then
    if ! git -C $wt apply --3way /verif/seeded/$n/patch.diff >/dev/null 2>&1 || grep -rq '<<<<<<<' $wt/sourcer $wt/grammar.txt 2>/dev/null; then
      echo "$n: patch-does-not-apply" >> $log; git -C /repo worktree remove --force $wt; return
    fi
  fi
  rm -rf $vf; mkdir -p $vf; rsync -a --exclude .git --exclude seeded --exclude notes /verif/ $vf/
  out=$(cd $vf && SOURCER_REPO=$wt timeout 1500 ./check $c 2>&1); rc=$?
  echo "$n: $c rc=$rc violations=$(echo "$out" | grep -c '^VIOLATION') $(echo "$out" | grep '^VIOLATION' | head -2 | sed 's/.*replays.//' | tr '\n' ' ')" >> $log
  rm -rf $vf; git -C /repo worktree remove --force $wt
}
export -f one
printf '%s\n' $names | xargs -P 4 -I{} bash -c 'one {}'
git -C /repo worktree prune
sort $log
