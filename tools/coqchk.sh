#!/bin/bash
# independent re-check of every compiled property file (and all it depends on) with coqchk; prints the axiom summary
cd /verif/coq || exit 2
make -f Makefile.coq -j8 >/dev/null 2>&1
coqchk -silent -o -R . SV $(ls Props/*.vo Gen/Tie*.vo 2>/dev/null | sed 's/\.vo$//; s#/#.#; s/^/SV./') 2>&1 | grep -v conda
