#!/usr/bin/env python3
"""tools/seedprompt.py <key> [extra sentence] : write /tmp/prompt_<key>.txt for a seeding sub-agent (property text only)."""
import json
import sys

key = sys.argv[1]
extra = sys.argv[2] if len(sys.argv) > 2 else ''
props = {json.loads(l)['id']: json.loads(l) for l in open('/verif/properties.jsonl')}
p = props[key[:3]]
wt = f'/tmp/wt_{key}'
text = f'''You are working in a scratch git worktree of a Python project, jvs/sourcer (a PEG-style parser generator: `from sourcer import Grammar`; a grammar description is compiled into a Python module of generator-based parse functions), at {wt}. Work ONLY inside that directory; never touch /repo or /verif or read anything under /verif.

Run Python as `PYTHONPATH={wt} /venv/bin/python` (every shell command prints a harmless conda WARNING line; ignore it). The test suite: `cd {wt} && PYTHONPATH={wt} /venv/bin/python -m pytest -q -p no:cacheprovider` (52 tests, pass now). Read README.md, grammar.txt, sourcer/*.py, sourcer/expressions/*.py as needed. Note: sourcer/parser.py is generated (by generate_parser.py) from grammar.txt and embeds the runtime templates found in sourcer/translator.py; if your change touches those templates or the code generator, decide deliberately whether parser.py is regenerated, and say so.

Here is a semantic property that users of the project rely on:

  {p['id']}: {p['title']}
  {p['statement']}
  Holds over: {p['quantifier']['text']}

Your task: make ONE realistic change to the project's source that BREAKS this property while the package still imports and all 52 existing tests still pass. It must look like something a maintainer could plausibly commit (a refactoring, an optimisation, a "simplification", a tidy-up, a fix for something else) - not sabotage that every use would reveal. It must need something specific to manifest: a particular grammar shape, input, name, depth, order of calls or the like; ordinary uses keep working. Prefer a subtle change whose effect shows only in an unusual corner of what the property quantifies over. {extra}

Deliver in {wt}/seeded/ (create the directory):
  - patch.diff : `git diff` of your source change only (not the seeded/ directory); it must apply with `git apply` to a clean checkout of the same commit
  - demo.py    : uses only the public API; prints PASS and exits 0 on the UNMODIFIED code, prints FAIL (with what differed) and exits 1 with your change applied. Verify both (save your change with `git diff > /tmp/<yourkey>.diff`, undo it with `git apply -R`, re-apply with `git apply`; NEVER use `git stash`: the stash is shared by all worktrees of the repository and other people work in sibling worktrees).
  - meta.json  : {{"property": "{p['id']}", "summary": "...what changed and why it breaks the property...", "needs_to_manifest": "...exactly what grammar/input/sequence is needed...", "files_changed": [...], "tests_pass": true}}
Leave your change APPLIED in the worktree when you finish. In your final message report: the change, what it needs to manifest, and the commands you ran with their outcomes. If, while probing the UNMODIFIED code, you notice behaviour that already violates the property, list it separately at the end of your report (with a minimal reproduction).'''
open(f'/tmp/prompt_{key}.txt', 'w').write(text)
print(f'/tmp/prompt_{key}.txt')
