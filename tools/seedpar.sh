#!/bin/bash
# tools/seedpar.sh <name> <worktree> [checks...] : like seedtest.sh, but runs the checks from a private copy of /verif
# against the sub-agent's worktree (SOURCER_REPO), so that several seeded changes can be examined at the same time and
# /repo is never touched.  Output: one summary block; replays copied to /verif/seeded/<name>/replays.
name=$1; wt=$2; shift 2
checks="$@"
set -u
cd "$wt" || exit 2
log=/tmp/seedpar_$name.log; : > $log
echo "== $name: verify in $wt" >> $log
echo "tests WITH change: $(PYTHONPATH=$wt /venv/bin/python -m pytest -q -p no:cacheprovider 2>&1 | tail -1)" >> $log
PYTHONPATH=$wt timeout 600 /venv/bin/python seeded/demo.py > /tmp/seedpar_${name}_with.log 2>&1; echo "demo WITH change: rc=$? $(tail -1 /tmp/seedpar_${name}_with.log | cut -c1-100)" >> $log
git diff -- . ':!seeded' > /tmp/seedpar_${name}.diff
git apply -R /tmp/seedpar_${name}.diff
PYTHONPATH=$wt timeout 600 /venv/bin/python seeded/demo.py > /tmp/seedpar_${name}_without.log 2>&1; echo "demo WITHOUT change: rc=$? $(tail -1 /tmp/seedpar_${name}_without.log | cut -c1-100)" >> $log
git apply /tmp/seedpar_${name}.diff
mkdir -p /verif/seeded/$name/replays
cp /tmp/seedpar_${name}.diff /verif/seeded/$name/patch.diff
cp seeded/demo.py seeded/meta.json /verif/seeded/$name/ 2>/dev/null
git -C /repo apply --check /verif/seeded/$name/patch.diff 2>/dev/null && echo "patch applies to /repo: yes" >> $log || echo "patch applies to /repo: NO" >> $log
vf=/tmp/vf_$name
rm -rf $vf; mkdir -p $vf; rsync -a --exclude .git --exclude seeded --exclude notes /verif/ $vf/
cd $vf
for c in $checks; do
  t0=$(date +%s)
  out=$(SOURCER_REPO=$wt timeout 2400 ./check $c 2>&1); rc=$?
  echo "$c rc=$rc $(( $(date +%s) - t0 ))s | $(echo "$out" | grep -c '^VIOLATION') violation line(s) | $(echo "$out" | grep '^VIOLATION' | head -4 | sed 's/.*replays.//' | tr '\n' ' ') | $(echo "$out" | tail -1 | cut -c1-140)" >> $log
  for f in $(echo "$out" | grep '^VIOLATION' | sed 's/.*replay=\([^ ]*\).*/\1/' | head -3); do cp "$f" /verif/seeded/$name/replays/ 2>/dev/null; done
done
cd /; rm -rf $vf
cat $log
